package gosx

import (
	"fmt"
	"go/token"
	"go/types"
	"strings"

	"golang.org/x/tools/go/ssa"
)

type targetPanic struct{ v value }

type endKind int

const (
	endInfeasible  endKind = iota // assumption false / infeasible branch
	endUnwind                     // step or unwinding bound exceeded
	endUnsupported                // construct/external outside the engine
	endUnknown                    // solver unknown on a needed query
	endStop                       // harness asked to stop the path (verifStop)
)

func (k endKind) String() string {
	return [...]string{"infeasible", "unwind", "unsupported", "solver-unknown", "stop"}[k]
}

type pathEnd struct {
	kind endKind
	msg  string
}

type deferred struct {
	fn    value
	args  []value
	instr *ssa.Defer
	tail  *deferred
}

type frame struct {
	ex               *Exec
	caller           *frame
	fn               *ssa.Function
	sz               sizer
	block, prevBlock *ssa.BasicBlock
	env              map[ssa.Value]value
	locals           []value
	defers           *deferred
	result           value
	panicking        bool
	panic            interface{}
	phitemps         []value
}

func (fr *frame) get(key ssa.Value) value {
	switch key := key.(type) {
	case nil:
		return nil
	case *ssa.Function:
		return key
	case *ssa.Builtin:
		return key
	case *ssa.Const:
		return constValue(key, fr.sz)
	case *ssa.Global:
		return fr.ex.global(key)
	}
	if r, ok := fr.env[key]; ok {
		if lz, isLazy := r.(*lazyStr); isLazy {
			s := fr.ex.forceLazy(lz)
			fr.env[key] = s
			return s
		}
		return r
	}
	panic(fmt.Sprintf("get: no value for %T: %v in %s", key, key.Name(), fr.fn))
}

func (fr *frame) runDefer(d *deferred) {
	var ok bool
	defer func() {
		if !ok {
			r := recover()
			if _, isTarget := r.(targetPanic); !isTarget {
				panic(r) // pathEnd and engine-internal failures propagate untouched
			}
			fr.panicking = true
			fr.panic = r
		}
	}()
	fr.ex.call(fr, d.instr.Pos(), d.fn, d.args)
	ok = true
}

func (fr *frame) runDefers() {
	for d := fr.defers; d != nil; d = d.tail {
		fr.runDefer(d)
	}
	fr.defers = nil
	if fr.panicking {
		panic(fr.panic)
	}
}

func (ex *Exec) visitInstr(fr *frame, instr ssa.Instruction) bool {
	switch instr := instr.(type) {
	case *ssa.DebugRef:
	case *ssa.UnOp:
		fr.env[instr] = fr.unop(instr, fr.get(instr.X))
	case *ssa.BinOp:
		fr.env[instr] = fr.binop(instr.Op, instr.X.Type(), fr.get(instr.X), fr.get(instr.Y), instr.Y.Type())
	case *ssa.Call:
		fn, args := fr.prepareCall(&instr.Call)
		fr.env[instr] = ex.call(fr, instr.Pos(), fn, args)
	case *ssa.ChangeInterface:
		fr.env[instr] = fr.get(instr.X)
	case *ssa.ChangeType:
		fr.env[instr] = fr.get(instr.X)
	case *ssa.Convert:
		fr.env[instr] = fr.conv(instr.Type(), instr.X.Type(), fr.get(instr.X))
	case *ssa.MakeInterface:
		fr.env[instr] = iface{t: instr.X.Type(), v: fr.get(instr.X)}
	case *ssa.Extract:
		fr.env[instr] = fr.get(instr.Tuple).(tuple)[instr.Index]
	case *ssa.Slice:
		fr.env[instr] = fr.doSlice(instr, fr.get(instr.X), fr.get(instr.Low), fr.get(instr.High), fr.get(instr.Max))
	case *ssa.Return:
		switch len(instr.Results) {
		case 0:
		case 1:
			fr.result = fr.get(instr.Results[0])
		default:
			res := make(tuple, len(instr.Results))
			for i, r := range instr.Results {
				res[i] = fr.get(r)
			}
			fr.result = res
		}
		if ex.eng.returnHooks != nil {
			if h := ex.eng.returnHooks[fr.fn]; h != nil {
				h(ex, fr)
			}
		}
		fr.block = nil
		return true
	case *ssa.RunDefers:
		fr.runDefers()
	case *ssa.Panic:
		panic(targetPanic{fr.get(instr.X)})
	case *ssa.Store:
		if ref, ok := fr.get(instr.Addr).(*symRef); ok {
			i := ex.concretize(ref.idx, len(ref.cells), "store through a symbolic index")
			store(ref.cells[i], fr.get(instr.Val))
			break
		}
		p := fr.get(instr.Addr).(*value)
		if p == nil {
			rtPanic("invalid memory address or nil pointer dereference")
		}
		store(p, fr.get(instr.Val))
	case *ssa.If:
		succ := 1
		switch c := fr.get(instr.Cond).(type) {
		case bool:
			if c {
				succ = 0
			}
		case *Term:
			if ex.branch(c, "if") {
				succ = 0
			}
		default:
			panic(fmt.Sprintf("If on %T", c))
		}
		fr.prevBlock, fr.block = fr.block, fr.block.Succs[succ]
	case *ssa.Jump:
		fr.prevBlock, fr.block = fr.block, fr.block.Succs[0]
	case *ssa.Defer:
		fn, args := fr.prepareCall(&instr.Call)
		fr.defers = &deferred{fn: fn, args: args, instr: instr, tail: fr.defers}
	case *ssa.Alloc:
		var addr *value
		if instr.Heap {
			addr = new(value)
			fr.env[instr] = addr
		} else {
			addr = fr.env[instr].(*value)
		}
		*addr = zero(deref(instr.Type()))
	case *ssa.MakeSlice:
		n := fr.makeLen(fr.get(instr.Len), instr.Len.Type(), "len")
		c := fr.makeLen(fr.get(instr.Cap), instr.Cap.Type(), "cap")
		if n > c {
			rtPanic("makeslice: cap out of range")
		}
		if c > ex.eng.MaxAlloc {
			panic(pathEnd{kind: endUnwind, msg: fmt.Sprintf("make([]T, %d) exceeds the allocation bound", c)})
		}
		tElt := instr.Type().Underlying().(*types.Slice).Elem()
		cells := make([]value, c)
		for i := range cells {
			cells[i] = zero(tElt)
		}
		fr.env[instr] = &sliceV{b: &backing{cells: cells}, len: n, cap: c}
	case *ssa.MakeMap:
		fr.env[instr] = newMapV(instr.Type().Underlying().(*types.Map).Key())
	case *ssa.Range:
		fr.env[instr] = fr.rangeIter(fr.get(instr.X), instr.X.Type())
	case *ssa.Next:
		fr.env[instr] = fr.get(instr.Iter).(iter).next(fr)
	case *ssa.FieldAddr:
		if ref, ok := fr.get(instr.X).(*symRef); ok {
			nr := &symRef{idx: ref.idx, cells: make([]*value, len(ref.cells))}
			for i, c := range ref.cells {
				nr.cells[i] = &(*c).(structure)[instr.Field]
			}
			fr.env[instr] = nr
			break
		}
		p := fr.get(instr.X).(*value)
		if p == nil {
			rtPanic("invalid memory address or nil pointer dereference")
		}
		fr.env[instr] = &(*p).(structure)[instr.Field]
	case *ssa.Field:
		fr.env[instr] = copyVal(fr.get(instr.X).(structure)[instr.Field])
	case *ssa.IndexAddr:
		x := fr.get(instr.X)
		switch x := x.(type) {
		case *sliceV:
			if ref := fr.symIndexRef(instr, fr.get(instr.Index), instr.Index.Type(), sliceLen(x), func(i int) *value { return x.at(i) }); ref != nil {
				fr.env[instr] = ref
				break
			}
			i := fr.checkIndex(fr.get(instr.Index), instr.Index.Type(), sliceLen(x))
			fr.env[instr] = x.at(i)
		case *value:
			if x == nil {
				rtPanic("invalid memory address or nil pointer dereference")
			}
			a := (*x).(array)
			if ref := fr.symIndexRef(instr, fr.get(instr.Index), instr.Index.Type(), len(a), func(i int) *value { return &a[i] }); ref != nil {
				fr.env[instr] = ref
				break
			}
			i := fr.checkIndex(fr.get(instr.Index), instr.Index.Type(), len(a))
			fr.env[instr] = &a[i]
		default:
			panic(fmt.Sprintf("IndexAddr on %T", x))
		}
	case *ssa.Index:
		x := fr.get(instr.X)
		switch x := x.(type) {
		case array:
			i := fr.checkIndex(fr.get(instr.Index), instr.Index.Type(), len(x))
			fr.env[instr] = copyVal(x[i])
		case string:
			idx := fr.get(instr.Index)
			if it, ok := idx.(*Term); ok && ex.eng.StringTableIndex {
				_ = it
			}
			i := fr.checkIndex(idx, instr.Index.Type(), len(x))
			fr.env[instr] = uint64(x[i])
		case *SymStr:
			bs, ok := ex.byteTerms(x)
			if !ok {
				panic(pathEnd{kind: endUnsupported, msg: "indexing a string with rendered segments"})
			}
			i := fr.checkIndex(fr.get(instr.Index), instr.Index.Type(), len(bs))
			if bs[i].IsConst() {
				fr.env[instr] = bs[i].C
			} else {
				fr.env[instr] = bs[i]
			}
		default:
			panic(fmt.Sprintf("Index on %T", x))
		}
	case *ssa.Lookup:
		fr.env[instr] = fr.lookup(instr, fr.get(instr.X), fr.get(instr.Index))
	case *ssa.MapUpdate:
		m := fr.get(instr.Map).(*mapV)
		if m == nil {
			panic(targetPanic{v: plainError("assignment to entry in nil map")})
		}
		fr.mapSet(m, fr.get(instr.Key), fr.get(instr.Value))
	case *ssa.TypeAssert:
		fr.env[instr] = fr.typeAssert(instr, fr.get(instr.X).(iface))
	case *ssa.MakeClosure:
		bindings := make([]value, len(instr.Bindings))
		for i, b := range instr.Bindings {
			bindings[i] = fr.get(b)
		}
		fr.env[instr] = &closure{instr.Fn.(*ssa.Function), bindings}
	case *ssa.SliceToArrayPointer:
		panic(pathEnd{kind: endUnsupported, msg: "slice to array pointer"})
	case *ssa.Go, *ssa.Send, *ssa.MakeChan, *ssa.Select:
		panic(pathEnd{kind: endUnsupported, msg: "goroutines/channels"})
	default:
		panic(fmt.Sprintf("unexpected instruction: %T", instr))
	}
	return false
}

type plainError string

func (fr *frame) makeLen(v value, t types.Type, what string) int {
	c, sym := fr.indexVal(v, t)
	if sym != nil {
		tt := fr.ex.tt
		lim := fr.ex.eng.MaxAlloc
		if fr.ex.branch(tt.Cmp(OpSLt, sym, tt.BV(0, 64)), "make "+what+" < 0") {
			rtPanic("makeslice: " + what + " out of range")
		}
		if !fr.ex.branch(tt.Cmp(OpSLe, sym, tt.BV(uint64(lim), 64)), "make "+what+" within allocation bound") {
			panic(pathEnd{kind: endUnwind, msg: "symbolic make length exceeds the allocation bound"})
		}
		return int(fr.ex.concretize(sym, lim+1, "make "+what))
	}
	if c < 0 {
		rtPanic("makeslice: " + what + " out of range")
	}
	return int(c)
}

func (fr *frame) prepareCall(call *ssa.CallCommon) (fn value, args []value) {
	v := fr.get(call.Value)
	if call.Method == nil {
		fn = v
	} else {
		recv := v.(iface)
		if recv.t == nil {
			rtPanic("invalid memory address or nil pointer dereference")
		}
		if ee, ok := recv.v.(*engErr); ok && call.Method.Name() == "Error" {
			fn = &nativeFunc{name: "Error", f: func(fr *frame, a []value) value { return ee.text() }}
		} else {
			f := fr.ex.eng.lookupMethod(recv.t, call.Method)
			if f == nil {
				panic(fmt.Sprintf("method set for dynamic type %v does not contain %s", recv.t, call.Method))
			}
			fn = f
		}
		args = append(args, recv.v)
	}
	for _, arg := range call.Args {
		args = append(args, fr.get(arg))
	}
	return
}

func (ex *Exec) call(caller *frame, callpos token.Pos, fn value, args []value) value {
	switch fn := fn.(type) {
	case *ssa.Function:
		if fn == nil {
			rtPanic("invalid memory address or nil pointer dereference")
		}
		return ex.callSSA(caller, callpos, fn, args, nil)
	case *closure:
		if fn == nil {
			rtPanic("invalid memory address or nil pointer dereference")
		}
		return ex.callSSA(caller, callpos, fn.Fn, args, fn.Env)
	case *ssa.Builtin:
		return ex.callBuiltin(caller, callpos, fn, args)
	case *nativeFunc:
		return fn.f(caller, args)
	}
	panic(fmt.Sprintf("cannot call %T", fn))
}

// nativeFunc is an engine-provided function value (used for stubs handed to target code).
type nativeFunc struct {
	name string
	f    func(fr *frame, args []value) value
}

func (ex *Exec) callSSA(caller *frame, callpos token.Pos, fn *ssa.Function, args []value, env []value) value {
	fr := &frame{ex: ex, caller: caller, fn: fn}
	if fn.Prog == ex.eng.RefProg {
		fr.sz = ex.eng.RefSizes
	} else {
		fr.sz = ex.eng.Sizes
	}
	ex.depth++
	if ex.depth > ex.eng.MaxDepth {
		panic(pathEnd{kind: endUnwind, msg: "interpreter call depth bound exceeded"})
	}
	prevTop := ex.top
	ex.top = fr
	defer func() { ex.depth-- }()
	if fn.Parent() == nil {
		name := fn.String()
		if ext := ex.eng.external(fn, name); ext != nil {
			return ext(fr, args)
		}
		if fn.Blocks == nil {
			panic(pathEnd{kind: endUnsupported, msg: "no body and no model for external function " + name})
		}
	}
	if ex.eng.CollectFuncs {
		ex.funcsSeen[fn] = true
	}
	fr.env = make(map[ssa.Value]value, 16)
	fr.block = fn.Blocks[0]
	fr.locals = make([]value, len(fn.Locals))
	for i, l := range fn.Locals {
		fr.locals[i] = zero(deref(l.Type()))
		fr.env[l] = &fr.locals[i]
	}
	for i, p := range fn.Params {
		fr.env[p] = args[i]
	}
	for i, fv := range fn.FreeVars {
		fr.env[fv] = env[i]
	}
	for fr.block != nil {
		ex.runFrame(fr)
	}
	ex.top = prevTop
	return fr.result
}

func (ex *Exec) runFrame(fr *frame) {
	defer func() {
		if fr.block == nil {
			return // normal return
		}
		r := recover()
		switch r.(type) {
		case targetPanic:
		default:
			// pathEnd and engine-internal errors propagate untouched
			panic(r)
		}
		if ex.panicFrom == "" {
			ex.panicFrom = ex.pkgFuncOf(fr)
		}
		ex.top = fr
		fr.panicking = true
		fr.panic = r
		fr.runDefers()
		fr.block = fr.fn.Recover
		if fr.block == nil {
			// recovered in a function without named results: return zero values
			fr.result = zeroResult(fr.fn)
		}
	}()
	for {
		block := fr.block
		if ex.eng.blockHooks != nil {
			if h := ex.eng.blockHooks[block]; h != nil {
				h(ex, fr)
			}
		}
		// phis
		n := 0
		for n < len(block.Instrs) {
			if _, ok := block.Instrs[n].(*ssa.Phi); !ok {
				break
			}
			n++
		}
		if n > 0 {
			predIndex := -1
			for i, p := range block.Preds {
				if p == fr.prevBlock {
					predIndex = i
					break
				}
			}
			fr.phitemps = fr.phitemps[:0]
			for _, phi := range block.Instrs[:n] {
				fr.phitemps = append(fr.phitemps, fr.get(phi.(*ssa.Phi).Edges[predIndex]))
			}
			for i, phi := range block.Instrs[:n] {
				fr.env[phi.(*ssa.Phi)] = fr.phitemps[i]
			}
		}
		ex.steps += len(block.Instrs) - n
		if ex.steps > ex.eng.MaxSteps {
			panic(pathEnd{kind: endUnwind, msg: fmt.Sprintf("step bound %d exceeded in %s", ex.eng.MaxSteps, ex.phaseOf(fr))})
		}
		for _, instr := range block.Instrs[n:] {
			if ex.visitInstr(fr, instr) {
				return
			}
		}
	}
}

func zeroResult(fn *ssa.Function) value {
	res := fn.Signature.Results()
	switch res.Len() {
	case 0:
		return nil
	case 1:
		return zero(res.At(0).Type())
	}
	return zero(res)
}

// doRecover implements recover().
func (ex *Exec) doRecover(caller *frame) value {
	if caller != nil && !caller.panicking && caller.caller != nil && caller.caller.panicking {
		caller.caller.panicking = false
		ex.panicFrom = ""
		p := caller.caller.panic
		caller.caller.panic = nil
		switch p := p.(type) {
		case targetPanic:
			return ex.panicValue(p.v)
		default:
			panic(fmt.Sprintf("unexpected panic type %T in recover()", p))
		}
	}
	return iface{}
}

// panicValue converts an engine panic payload into the interface value recover() returns.
func (ex *Exec) panicValue(v value) value {
	switch v := v.(type) {
	case runtimeError, typeAssertError, plainError:
		return ex.errValue(ex.panicToErr(v))
	case iface:
		return v
	}
	panic(fmt.Sprintf("panicValue: %T", v))
}

// panicText renders a panic payload for reports.
func (ex *Exec) panicText(v value) string {
	switch v := v.(type) {
	case runtimeError:
		return "runtime error: " + string(v)
	case typeAssertError:
		return string(v)
	case plainError:
		return string(v)
	case iface:
		if s, ok := v.v.(string); ok {
			return s
		}
		return show(v)
	}
	return show(v)
}

func (fr *frame) rangeIter(x value, t types.Type) iter {
	switch x := x.(type) {
	case *mapV:
		if x == nil {
			return &mapIter{}
		}
		entries := make([]*mapEntry, len(x.entries))
		copy(entries, x.entries)
		if fr.ex.eng.MapOrderHook != nil {
			entries = fr.ex.eng.MapOrderHook(fr.ex, entries)
		}
		// Go's iteration sees later insertions "maybe"; we iterate the snapshot plus nothing new (allowed by the spec)
		return &mapIter{entries: entries}
	case string, *SymStr:
		return &stringIter{s: x}
	}
	panic(fmt.Sprintf("cannot range over %T", x))
}

// ---------------------------------------------------------------------------------------------
// maps

func (fr *frame) keyEq(m *mapV, a, b value) value {
	return fr.equals(m.keyT, a, b)
}

// find locates the entry for key k, forking on symbolic equalities.
func (fr *frame) find(m *mapV, k value) *mapEntry {
	if m == nil {
		return nil
	}
	if !m.hasSym && !isSym(k) {
		ck, ok := concKey(k)
		if !ok {
			if f, isF := k.(float64); isF && f != f {
				return nil
			}
			// non-scalar key: linear scan with concrete equality
			for _, e := range m.entries {
				if e.dead {
					continue
				}
				if eq, _ := fr.keyEq(m, e.k, k).(bool); eq {
					return e
				}
			}
			return nil
		}
		return m.conc[ck]
	}
	for _, e := range m.entries {
		if e.dead {
			continue
		}
		switch eq := fr.keyEq(m, e.k, k).(type) {
		case bool:
			if eq {
				return e
			}
		case *Term:
			if fr.ex.branch(eq, "map key equal") {
				return e
			}
		}
	}
	return nil
}

func (fr *frame) mapSet(m *mapV, k, v value) {
	if e := fr.find(m, k); e != nil {
		e.v = copyVal(v)
		return
	}
	e := &mapEntry{k: k, v: copyVal(v)}
	m.entries = append(m.entries, e)
	m.n++
	if isSym(k) {
		m.hasSym = true
	} else if ck, ok := concKey(k); ok {
		m.conc[ck] = e
	} else {
		m.hasSym = true // forces linear scans
	}
}

func (fr *frame) mapDelete(m *mapV, k value) {
	if e := fr.find(m, k); e != nil {
		e.dead = true
		m.n--
		if ck, ok := concKey(e.k); ok && !isSym(e.k) {
			delete(m.conc, ck)
		}
		m.compact()
	}
}

func (fr *frame) lookup(instr *ssa.Lookup, x, idx value) value {
	switch x := x.(type) {
	case *mapV:
		var v value
		e := fr.find(x, idx)
		ok := e != nil
		if ok {
			v = copyVal(e.v)
		} else {
			v = zero(instr.X.Type().Underlying().(*types.Map).Elem())
		}
		if instr.CommaOk {
			return tuple{v, ok}
		}
		return v
	case string:
		i := fr.checkIndex(idx, instr.Index.Type(), len(x))
		return uint64(x[i])
	case *SymStr:
		bs, ok := fr.ex.byteTerms(x)
		if !ok {
			panic(pathEnd{kind: endUnsupported, msg: "indexing a string with rendered segments"})
		}
		i := fr.checkIndex(idx, instr.Index.Type(), len(bs))
		if bs[i].IsConst() {
			return bs[i].C
		}
		return bs[i]
	}
	panic(fmt.Sprintf("lookup on %T", x))
}

// ---------------------------------------------------------------------------------------------
// builtins

func (ex *Exec) callBuiltin(caller *frame, callpos token.Pos, fn *ssa.Builtin, args []value) value {
	switch fn.Name() {
	case "append":
		sig := fn.Type().(*types.Signature)
		st := sig.Params().At(0).Type().Underlying().(*types.Slice)
		elemT := st.Elem()
		var add []value
		switch a := args[1].(type) {
		case *sliceV:
			n := sliceLen(a)
			add = make([]value, n)
			for i := 0; i < n; i++ {
				add[i] = copyVal(*a.at(i))
			}
		case string, *SymStr:
			bs, ok := ex.byteTerms(a)
			if !ok {
				panic(pathEnd{kind: endUnsupported, msg: "append of a string with rendered segments"})
			}
			for _, b := range bs {
				if b.IsConst() {
					add = append(add, b.C)
				} else {
					add = append(add, b)
				}
			}
		}
		s := args[0].(*sliceV)
		if len(add) == 0 {
			return s
		}
		r := caller.doAppend(s, add, caller.sz.Sizeof(elemT), hasPointers(elemT))
		for i := r.len; i < r.cap; i++ {
			if r.b.cells[r.off+i] == nil {
				r.b.cells[r.off+i] = zero(elemT)
			}
		}
		return r
	case "copy":
		dst := args[0].(*sliceV)
		var src []value
		switch a := args[1].(type) {
		case *sliceV:
			n := sliceLen(a)
			src = make([]value, n)
			for i := 0; i < n; i++ {
				src[i] = copyVal(*a.at(i))
			}
		case string, *SymStr:
			bs, ok := ex.byteTerms(a)
			if !ok {
				panic(pathEnd{kind: endUnsupported, msg: "copy from a string with rendered segments"})
			}
			for _, b := range bs {
				if b.IsConst() {
					src = append(src, b.C)
				} else {
					src = append(src, b)
				}
			}
		}
		n := sliceLen(dst)
		if len(src) < n {
			n = len(src)
		}
		for i := 0; i < n; i++ {
			store(dst.at(i), src[i])
		}
		return uint64(n)
	case "close":
		panic(pathEnd{kind: endUnsupported, msg: "channels"})
	case "delete":
		m := args[0].(*mapV)
		if m != nil {
			caller.mapDelete(m, args[1])
		}
		return nil
	case "print", "println":
		ln := fn.Name() == "println"
		var segs []Seg
		for i, a := range args {
			if i > 0 && ln {
				segs = append(segs, Seg{K: segLit, S: " "})
			}
			segs = append(segs, ex.builtinPrintSegs(caller, a, fn.Type().(*types.Signature).Params().At(i).Type())...)
		}
		if ln {
			segs = append(segs, Seg{K: segLit, S: "\n"})
		}
		ex.emit(caller, segs)
		return nil
	case "len":
		switch x := args[0].(type) {
		case string:
			return uint64(len(x))
		case *SymStr:
			bs, ok := ex.byteTerms(x)
			if !ok {
				panic(pathEnd{kind: endUnsupported, msg: "len of a string with rendered segments"})
			}
			return uint64(len(bs))
		case array:
			return uint64(len(x))
		case *value:
			return uint64(len((*x).(array)))
		case *sliceV:
			return uint64(sliceLen(x))
		case *mapV:
			return uint64(x.length())
		}
		panic(fmt.Sprintf("len of %T", args[0]))
	case "cap":
		switch x := args[0].(type) {
		case array:
			return uint64(len(x))
		case *value:
			return uint64(len((*x).(array)))
		case *sliceV:
			return uint64(sliceCap(x))
		}
		panic(fmt.Sprintf("cap of %T", args[0]))
	case "min", "max":
		t := fn.Type().(*types.Signature).Params().At(0).Type()
		r := args[0]
		for _, a := range args[1:] {
			op := token.LSS
			if fn.Name() == "max" {
				op = token.GTR
			}
			switch c := caller.binop(op, t, a, r, t).(type) {
			case bool:
				if c {
					r = a
				}
			case *Term:
				r = ex.tt.Ite(c, caller.lift(a, t), caller.lift(r, t))
			}
		}
		return r
	case "panic":
		panic(targetPanic{args[0]})
	case "recover":
		return ex.doRecover(caller)
	case "clear":
		switch x := args[0].(type) {
		case *mapV:
			if x != nil {
				for _, e := range x.entries {
					e.dead = true
				}
				x.entries, x.n, x.conc, x.hasSym = nil, 0, map[interface{}]*mapEntry{}, false
			}
		case *sliceV:
			et := fn.Type().(*types.Signature).Params().At(0).Type().Underlying().(*types.Slice).Elem()
			for i := 0; i < sliceLen(x); i++ {
				store(x.at(i), zero(et))
			}
		}
		return nil
	case "ssa:wrapnilchk":
		recv := args[0]
		if p, ok := recv.(*value); ok && p == nil {
			recvType := args[1].(string)
			methodName := args[2].(string)
			panic(targetPanic{v: plainError(fmt.Sprintf("value method %s.%s called using nil *%s pointer", recvType, methodName, recvType))})
		}
		return recv
	}
	panic("unknown built-in: " + fn.Name())
}

// builtinPrintSegs renders one operand of the print/println builtins (ints, bools, strings only; the generators avoid the rest).
func (ex *Exec) builtinPrintSegs(fr *frame, a value, t types.Type) []Seg {
	switch v := a.(type) {
	case string:
		return []Seg{{K: segLit, S: v}}
	case *SymStr:
		return v.Segs
	case bool:
		return []Seg{{K: segLit, S: fmt.Sprint(v)}}
	case uint64:
		w := fr.sz.bits(t)
		if isSigned(t) {
			return []Seg{{K: segLit, S: fmt.Sprint(sx(v, w))}}
		}
		return []Seg{{K: segLit, S: fmt.Sprint(v)}}
	case *Term:
		switch {
		case v.W == SBool:
			return []Seg{{K: segBool, T: v}}
		case v.W > 0:
			if isSigned(t) {
				return []Seg{{K: segDec, T: ex.tt.Resize(v, 64, true)}}
			}
			return []Seg{{K: segUDec, T: ex.tt.Resize(v, 64, false)}}
		}
	}
	panic(pathEnd{kind: endUnsupported, msg: fmt.Sprintf("print builtin on %T", a)})
}

func posString(fset *token.FileSet, pos token.Pos) string {
	if pos == token.NoPos {
		return "-"
	}
	p := fset.Position(pos)
	return fmt.Sprintf("%s:%d", p.Filename[strings.LastIndex(p.Filename, "/")+1:], p.Line)
}

// phaseOf names the function at which a bound was hit, and whether the VM dispatch loop is active.
func (ex *Exec) phaseOf(fr *frame) string {
	for f := fr; f != nil; f = f.caller {
		if f.fn != nil && f.fn.Name() == "exec" {
			return "(*VM).exec [run phase]"
		}
	}
	return fr.fn.String() + " [front end]"
}

// pkgFuncOf names the innermost function of the package under test on fr's call chain.
func (ex *Exec) pkgFuncOf(fr *frame) string {
	for f := fr; f != nil; f = f.caller {
		if f.fn != nil && f.fn.Pkg == ex.eng.Pkg {
			return containsTrim(f.fn.String())
		}
		if f.fn != nil && f.fn.Parent() != nil && f.fn.Parent().Pkg == ex.eng.Pkg {
			return containsTrim(f.fn.String())
		}
	}
	return "?"
}

// symRef is the address of an element selected by a symbolic index (in range): loads through it become an
// if-then-else over the candidate cells instead of one path per index value.
type symRef struct {
	idx   *Term // 64-bit, known to be < len(cells)
	cells []*value
}

// symIndexRef returns a symRef for a symbolic in-range index when every use of the address is a load (possibly
// through field selections); otherwise nil (the caller forks over the index values).
func (fr *frame) symIndexRef(instr *ssa.IndexAddr, idx value, it types.Type, n int, cell func(i int) *value) *symRef {
	if fr.ex.eng.NoSymIndexLoads || n == 0 || n > 512 {
		return nil
	}
	t, ok := idx.(*Term)
	if !ok {
		return nil
	}
	if !loadsOnly(instr) {
		return nil
	}
	_, sym := fr.indexVal(t, it)
	tt := fr.ex.tt
	in := tt.Cmp(OpULt, sym, tt.BV(uint64(n), 64))
	if !fr.ex.branch(in, "index in range") {
		panic(targetPanic{v: runtimeError(fmt.Sprintf("index out of range [%s] with length %d", "?", n))})
	}
	ref := &symRef{idx: sym, cells: make([]*value, n)}
	for i := 0; i < n; i++ {
		ref.cells[i] = cell(i)
	}
	return ref
}

func loadsOnly(v ssa.Value) bool {
	refs := v.Referrers()
	if refs == nil || len(*refs) == 0 {
		return false
	}
	for _, r := range *refs {
		switch r := r.(type) {
		case *ssa.UnOp:
			if r.Op != token.MUL {
				return false
			}
		case *ssa.FieldAddr:
			if !loadsOnly(r) {
				return false
			}
		case *ssa.DebugRef:
		default:
			return false
		}
	}
	return true
}

// loadSymRef builds the if-then-else over the candidate cells; aggregates are merged field by field.
func (ex *Exec) loadSymRef(ref *symRef) value {
	vals := make([]value, len(ref.cells))
	for i, c := range ref.cells {
		vals[i] = *c
	}
	v, ok := ex.mergeByIndex(ref.idx, vals)
	if !ok {
		i := ex.concretize(ref.idx, len(ref.cells), "load of a non-mergeable element through a symbolic index")
		return load(ref.cells[i])
	}
	return v
}

// mergeByIndex returns ite(idx==0, vals[0], ite(idx==1, ...)) with runs of identical values compressed into ranges.
func (ex *Exec) mergeByIndex(idx *Term, vals []value) (value, bool) {
	tt := ex.tt
	switch first := vals[0].(type) {
	case structure:
		out := make(structure, len(first))
		for f := range first {
			col := make([]value, len(vals))
			for i, v := range vals {
				s, ok := v.(structure)
				if !ok || len(s) != len(first) {
					return nil, false
				}
				col[i] = s[f]
			}
			m, ok := ex.mergeByIndex(idx, col)
			if !ok {
				return nil, false
			}
			out[f] = m
		}
		return out, true
	case uint64, bool, float64, *Term:
		// all must be scalars of one sort
		w := -99
		terms := make([]*Term, len(vals))
		for i, v := range vals {
			var t *Term
			switch v := v.(type) {
			case *Term:
				t = v
			case bool:
				t = tt.Bool(v)
			case float64:
				t = tt.FP(v)
			case uint64:
				t = nil // width resolved below
			default:
				return nil, false
			}
			terms[i] = t
			if t != nil {
				if w == -99 {
					w = t.W
				} else if w != t.W {
					return nil, false
				}
			}
		}
		allConcreteSame := true
		for i, v := range vals {
			if terms[i] == nil {
				if w == -99 {
					continue
				}
				if w <= 0 {
					return nil, false
				}
				terms[i] = tt.BV(v.(uint64), w)
			}
			_ = i
		}
		if w == -99 {
			// all concrete integers: width unknown here; use 64 bits and let the consumer resize? Not safe: fall back
			// unless all equal
			for _, v := range vals {
				if v != vals[0] {
					allConcreteSame = false
				}
			}
			if allConcreteSame {
				return vals[0], true
			}
			return nil, false
		}
		// build from the end, compressing runs
		res := terms[len(terms)-1]
		for i := len(terms) - 2; i >= 0; i-- {
			if terms[i] == res || (res.Op == OpIte && res.Args[1] == terms[i]) {
				continue // same value as the run that follows: its range test already covers this index
			}
			// idx <= i selects the run ending at i
			j := i
			for j > 0 && terms[j-1] == terms[i] {
				j--
			}
			res = tt.Ite(tt.Cmp(OpULe, idx, tt.BV(uint64(i), 64)), terms[i], res)
			_ = j
		}
		if res.IsConst() {
			switch {
			case res.W == SBool:
				return res.C != 0, true
			case res.W == SFP:
				return res.F, true
			}
			return res.C, true
		}
		return res, true
	}
	return nil, false
}
