package gosx

import (
	"fmt"
	"go/types"
	"sync"

	"golang.org/x/tools/go/ssa"
)

// VMMonitor watches goatlang's VM (shape M): invariants over VM state are evaluated at the head of every iteration
// of the real dispatch loop of (*VM).exec, on every feasible path.
type VMMonitor struct {
	eng     *Engine
	mu      sync.Mutex
	depthAt map[string]int // (function identity, pc) → operand depth, shared by all paths of all programs of a run
	Steps   int64
	Visited map[string]bool // opcodes seen
	codes   map[string]int64
	codeNm  map[int64]string

	vmT, frameT, insT       *types.Struct
	iStack, iFrame          int
	iBaseN, iCodes, iN      int
	iCode, iA, iB, iC, iPos int
}

type vmAct struct {
	d0        int
	key       string
	prevN     int
	prevDepth int
	prevIns   [4]int64
	have      bool
	snap      []value
	snapN     int
	isFunc    bool
}

// EnableVMMonitor installs the monitor hooks on (*VM).exec of the package under test.
func (e *Engine) EnableVMMonitor() *VMMonitor {
	m := &VMMonitor{eng: e, depthAt: map[string]int{}, Visited: map[string]bool{}, codes: map[string]int64{}, codeNm: map[int64]string{}}
	vm := e.Pkg.Type("VM").Type()
	m.vmT = vm.Underlying().(*types.Struct)
	m.iStack, m.iFrame = fieldIndex(m.vmT, "stack"), fieldIndex(m.vmT, "frame")
	m.frameT = m.vmT.Field(m.iFrame).Type().Underlying().(*types.Struct)
	m.iBaseN, m.iCodes, m.iN = fieldIndex(m.frameT, "BaseN"), fieldIndex(m.frameT, "Codes"), fieldIndex(m.frameT, "N")
	m.insT = e.Pkg.Type("instruction").Type().Underlying().(*types.Struct)
	m.iCode, m.iA, m.iB, m.iC, m.iPos = fieldIndex(m.insT, "Code"), fieldIndex(m.insT, "A"), fieldIndex(m.insT, "B"), fieldIndex(m.insT, "C"), fieldIndex(m.insT, "Pos")
	// opcode numbers from the package's constants
	for name, mem := range e.Pkg.Members {
		if c, ok := mem.(*ssa.NamedConst); ok && len(name) > 4 && name[:4] == "code" {
			if v, ok2 := constValue(c.Value, e.Sizes).(uint64); ok2 {
				iv := sx(v, 64)
				m.codes[name] = iv
				if old, dup := m.codeNm[iv]; !dup || old == "codeGlobalRef" {
					m.codeNm[iv] = name
				}
			}
		}
	}
	var execFn *ssa.Function
	for _, mem := range e.Pkg.Members {
		if t, ok := mem.(*ssa.Type); ok && t.Name() == "VM" {
			execFn = e.Prog.LookupMethod(types.NewPointer(t.Type()), e.Pkg.Pkg, "exec")
		}
	}
	if execFn == nil {
		panic("VM.exec not found")
	}
	var head *ssa.BasicBlock
	for _, b := range execFn.Blocks {
		if b.Comment == "for.body" {
			head = b
			break
		}
	}
	if head == nil {
		panic("dispatch loop of VM.exec not found")
	}
	e.blockHooks = map[*ssa.BasicBlock]func(ex *Exec, fr *frame){head: m.step}
	e.returnHooks = map[*ssa.Function]func(ex *Exec, fr *frame){execFn: m.exit}
	return m
}

func (m *VMMonitor) state(ex *Exec, fr *frame) (stackLen, baseN, n, ncodes int, ins [4]int64, pos uint64, stack *sliceV, codes *sliceV) {
	v := fr.env[fr.fn.Params[0]].(*value)
	vm := (*v).(structure)
	stack, _ = vm[m.iStack].(*sliceV)
	f := vm[m.iFrame].(structure)
	baseN = int(sx(f[m.iBaseN].(uint64), 64))
	n = int(sx(f[m.iN].(uint64), 64))
	codes, _ = f[m.iCodes].(*sliceV)
	stackLen, ncodes = sliceLen(stack), sliceLen(codes)
	if n >= 0 && n < ncodes {
		in := (*codes.at(n)).(structure)
		ins = [4]int64{sx(in[m.iCode].(uint64), 64), sx(in[m.iA].(uint64), 64), sx(in[m.iB].(uint64), 64), sx(in[m.iC].(uint64), 64)}
		pos = in[m.iPos].(uint64)
	}
	return
}

func (m *VMMonitor) acts(ex *Exec) map[*frame]*vmAct {
	a, _ := ex.User["vmacts"].(map[*frame]*vmAct)
	if a == nil {
		a = map[*frame]*vmAct{}
		ex.User["vmacts"] = a
	}
	return a
}

func split(v int64) (int64, int64) { return ((v >> 16) & 0xffff) - 32768, (v & 0xffff) - 32768 }

// effect returns the net change of the operand stack caused by ins (taken: whether a conditional jump was taken).
func (m *VMMonitor) effect(ins [4]int64, taken bool) (int, bool) {
	a, b, c := int(ins[1]), int(ins[2]), int(ins[3])
	switch m.codeNm[ins[0]] {
	case "codePush", "codeGlobalRef", "codeZero", "codeGlobalGet", "codeConst", "codeLocalGet", "codeFunc",
		"codeFastGet", "codeFastGetInt", "codeFastGetAttr", "codeLocalMul", "codeLocalAdd", "codeLocalDiv", "codeLocalSub":
		return 1, true
	case "codePop", "codeAdd", "codeSub", "codeMul", "codeDiv", "codeMod", "codeLte", "codeGte", "codeNeq", "codeBitAnd", "codeBitOr", "codeBitLsh",
		"codeBitRsh", "codeBitXor", "codeEq", "codeLt", "codeGt", "codeGet", "codeGlobalSet", "codeGlobalFunc", "codeLocalSet", "codeJumpFalse",
		"codeJumpTrue", "codeFastSet", "codeFastSetInt", "codeRange", "codeFastSetAttr", "codePanic", "codeGlobalStruct":
		return -1, true
	case "codeIncDec", "codeLocalIncDec", "codeConvert", "codeCast", "codeNegate", "codeBitComplement", "codeNot", "codeGlobalZero", "codeLocalZero",
		"codeJump", "codeLen", "codeGetOk", "codeIter", "codeGetAttr", "codePass", "codeMake", "codeReturn":
		return 0, true
	case "codeAnd", "codeOr":
		if taken {
			return 0, true
		}
		return -1, true
	case "codeCall", "codeCallVariadic":
		return -a - 1 + b, true
	case "codeFastCall":
		return -b + c, true
	case "codeFastCallAttr":
		c1, c2 := split(int64(c))
		return int(-c1 + c2), true
	case "codeDelete", "codeSlice", "codeSetMethod", "codeSetAttr", "codeCopy":
		return -2, true
	case "codeSet":
		return -3, true
	case "codeAppend":
		return -(a - 1), true
	case "codeNewSlice":
		return -b + 1, true
	case "codeNewMap":
		return -c + 1, true
	case "codeStruct":
		return -a + 1, true
	case "codeNewStruct":
		return -b + 1, true
	}
	return 0, false
}

// slotOperands lists the operands of ins that index local slots.
func (m *VMMonitor) slotOperands(ins [4]int64) []int64 {
	switch m.codeNm[ins[0]] {
	case "codeLocalGet", "codeLocalSet", "codeLocalZero", "codeLocalIncDec", "codeFastGetInt", "codeFastSetInt", "codeRange", "codeFastGet", "codeFastSet",
		"codeFastGetAttr", "codeFastSetAttr", "codeFastCallAttr":
		return []int64{ins[1]}
	case "codeLocalAdd", "codeLocalMul", "codeLocalSub", "codeLocalDiv":
		return []int64{ins[1], ins[2]}
	case "codeIter":
		b1, b2 := split(ins[2])
		return []int64{ins[1], b1, b2}
	}
	return nil
}

func (m *VMMonitor) isCall(ins [4]int64) bool {
	switch m.codeNm[ins[0]] {
	case "codeCall", "codeCallVariadic", "codeFastCall", "codeFastCallAttr":
		return true
	}
	return false
}

func (m *VMMonitor) fail(ex *Exec, id, msg string) {
	ex.Assert(ex.tt.Bool(false), id, msg, nil)
}

func (m *VMMonitor) opName(ins [4]int64) string {
	if n, ok := m.codeNm[ins[0]]; ok {
		return n[4:]
	}
	return fmt.Sprintf("code(%d)", ins[0])
}

func sameValue(a, b value) bool {
	switch a := a.(type) {
	case structure:
		bs, ok := b.(structure)
		if !ok || len(a) != len(bs) {
			return false
		}
		for i := range a {
			if !sameValue(a[i], bs[i]) {
				return false
			}
		}
		return true
	case iface:
		bi, ok := b.(iface)
		if !ok {
			return false
		}
		if a.t == nil || bi.t == nil {
			return a.t == nil && bi.t == nil
		}
		return types.Identical(a.t, bi.t) && sameValue(a.v, bi.v)
	case *Term:
		bt, ok := b.(*Term)
		return ok && a == bt
	case float64:
		bf, ok := b.(float64)
		return ok && (a == bf || (a != a && bf != bf))
	case uint64, bool, string:
		return a == b
	case *value:
		bp, ok := b.(*value)
		return ok && a == bp
	case *sliceV:
		bs, ok := b.(*sliceV)
		return ok && a == bs
	case *mapV:
		bm, ok := b.(*mapV)
		return ok && a == bm
	case *closure:
		bc, ok := b.(*closure)
		return ok && a == bc
	case *ssa.Function:
		bf, ok := b.(*ssa.Function)
		return ok && a == bf
	}
	return fmt.Sprint(a) == fmt.Sprint(b)
}

// step runs at the head of every dispatch-loop iteration.
func (m *VMMonitor) step(ex *Exec, fr *frame) {
	stackLen, baseN, n, ncodes, ins, pos, stack, codes := m.state(ex, fr)
	acts := m.acts(ex)
	act := acts[fr]
	depth := stackLen - baseN
	if act == nil {
		act = &vmAct{d0: depth}
		var p0 uint64
		if ncodes > 0 {
			p0 = (*codes.at(0)).(structure)[m.iPos].(uint64)
		}
		act.key = fmt.Sprintf("%v/%x/%d", ex.User["monitor_prog"], p0, ncodes)
		act.isFunc = fr.caller != nil && containsStr(fr.caller.fn.String(), "mkFunc")
		acts[fr] = act
		// m8: a script function starts with its non-parameter slots empty (nothing left behind by earlier calls or by
		// the caller's dead operands may show through as the initial value of a local)
		if act.isFunc && n == 0 {
			for _, fv := range fr.caller.fn.FreeVars {
				if fv.Name() != "args" {
					continue
				}
				cell, _ := fr.caller.env[fv].(*value)
				if cell == nil {
					break
				}
				nargs, ok := (*cell).(uint64)
				if !ok {
					break
				}
				for i := int(int64(nargs)); i < depth && baseN+i < stackLen; i++ {
					sv, _ := (*stack.at(baseN + i)).(structure)
					if sv == nil {
						continue
					}
					for _, f := range sv {
						zero := false
						switch x := f.(type) {
						case uint64:
							zero = x == 0
						case float64:
							zero = x == 0
						case iface:
							zero = x.t == nil
						case nil:
							zero = true
						}
						if !zero {
							m.fail(ex, "C07/M/m8-fresh-locals", fmt.Sprintf("local slot $%d of a called function is not empty at entry (%s)", i, ShowValue(*stack.at(baseN + i))))
							break
						}
					}
				}
			}
		}
	}
	m.mu.Lock()
	m.Steps++
	m.Visited[m.opName(ins)] = true
	m.mu.Unlock()
	id := "C07/M"
	where := fmt.Sprintf("pc %d (%s %d %d %d)", n, m.opName(ins), ins[1], ins[2], ins[3])
	// m2: every branch lands on an instruction of the same function
	if n < 0 || n >= ncodes {
		m.fail(ex, id+"/m2-jump-target", fmt.Sprintf("program counter %d outside [0,%d)", n, ncodes))
		return
	}
	// m1: operand depth never negative
	if depth < act.d0 {
		m.fail(ex, id+"/m1-depth-negative", fmt.Sprintf("operand stack below the frame's slots at %s: depth %d, slots %d", where, depth, act.d0))
	}
	// stack effect of the previous instruction
	if act.have {
		taken := n != act.prevN+1
		if eff, ok := m.effect(act.prevIns, taken); ok {
			if m.codeNm[act.prevIns[0]] == "codeFunc" {
				taken = false
			}
			if depth != act.prevDepth+eff {
				m.fail(ex, id+"/m4-stack-effect/"+m.opName(act.prevIns), fmt.Sprintf("%s at pc %d changed the operand depth by %d, its stack effect is %d", m.opName(act.prevIns), act.prevN, depth-act.prevDepth, eff))
			}
		} else {
			ex.Incomplete("no stack-effect rule for opcode " + m.opName(act.prevIns))
		}
		// m7: the caller's locals are identical across a call
		if act.snap != nil {
			for i, old := range act.snap {
				if baseN+i < stackLen && !sameValue(old, *stack.at(baseN + i)) {
					m.fail(ex, id+"/m7-caller-locals", fmt.Sprintf("local slot $%d of the caller changed across the call at pc %d", i, act.snapN))
					break
				}
			}
			act.snap = nil
		}
	}
	// m1: same depth on every visit of a pc, on every path
	key := fmt.Sprintf("%s@%d", act.key, n)
	rel := depth - act.d0
	m.mu.Lock()
	old, seen := m.depthAt[key]
	if !seen {
		m.depthAt[key] = rel
	}
	m.mu.Unlock()
	if seen && old != rel {
		m.fail(ex, id+"/m1-depth-per-pc", fmt.Sprintf("operand depth at %s is %d here and %d on another visit (pos %x)", where, rel, old, pos))
	}
	// m3: slot operands address the function's own slots
	for _, s := range m.slotOperands(ins) {
		if s < 0 || int(s) >= act.d0 {
			m.fail(ex, id+"/m3-slot-index", fmt.Sprintf("%s addresses slot $%d, the frame has %d slots", where, s, act.d0))
		}
	}
	// m5: RETURN k leaves exactly k values above the slots
	if m.codeNm[ins[0]] == "codeReturn" && act.isFunc {
		if rel != int(ins[1]) {
			m.fail(ex, id+"/m5-return-count", fmt.Sprintf("RETURN %d executed with %d values above the slots", ins[1], rel))
		}
	}
	if m.isCall(ins) {
		act.snap = make([]value, act.d0)
		for i := 0; i < act.d0 && baseN+i < stackLen; i++ {
			act.snap[i] = copyVal(*stack.at(baseN + i))
		}
		act.snapN = n
	}
	act.have, act.prevN, act.prevDepth, act.prevIns = true, n, depth, ins
}

// exit runs when exec returns normally.
func (m *VMMonitor) exit(ex *Exec, fr *frame) {
	stackLen, baseN, n, ncodes, ins, _, _, _ := m.state(ex, fr)
	acts := m.acts(ex)
	act := acts[fr]
	delete(acts, fr)
	if act == nil {
		return // empty program
	}
	id := "C07/M"
	if n > ncodes {
		m.fail(ex, id+"/m2-jump-target", fmt.Sprintf("execution left the function at pc %d, beyond its %d instructions", n, ncodes))
		return
	}
	depth := stackLen - baseN
	if n == ncodes && act.have {
		// fell off the end: the last executed instruction's effect
		if eff, ok := m.effect(act.prevIns, n != act.prevN+1); ok && m.codeNm[act.prevIns[0]] != "codeFunc" {
			if depth != act.prevDepth+eff {
				m.fail(ex, id+"/m4-stack-effect/"+m.opName(act.prevIns), fmt.Sprintf("%s at pc %d changed the operand depth by %d, its stack effect is %d", m.opName(act.prevIns), act.prevN, depth-act.prevDepth, eff))
			}
		}
		if act.isFunc && depth != act.d0 {
			m.fail(ex, id+"/m5-fall-off-end", fmt.Sprintf("function body ended with %d residual values above its slots", depth-act.d0))
		}
	}
	_ = ins
}
