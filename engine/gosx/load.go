package gosx

import (
	"bufio"
	"encoding/json"
	"fmt"
	"go/types"
	"io"
	"os"
	"os/exec"
	"path/filepath"
	"strings"
	"sync"

	"golang.org/x/tools/go/packages"
	"golang.org/x/tools/go/ssa"
	"golang.org/x/tools/go/ssa/ssautil"
)

const TargetPath = "github.com/philhassey/goatlang"

func goEnv(extra ...string) []string {
	env := os.Environ()
	env = append(env, "GOFLAGS=-mod=mod", "GOPROXY=off", "GOSUMDB=off", "GOTOOLCHAIN=local")
	return append(env, extra...)
}

// Load builds the SSA program for /repo (working tree) with the harness overlay files injected into package goatlang.
func Load(repo string, overlay map[string][]byte) (*Engine, error) {
	ov := map[string][]byte{}
	for name, src := range overlay {
		ov[filepath.Join(repo, name)] = src
	}
	cfg := &packages.Config{Mode: packages.LoadAllSyntax, Dir: repo, BuildFlags: []string{"-tags=verif"}, Env: goEnv(), Overlay: ov}
	pkgs, err := packages.Load(cfg, ".")
	if err != nil {
		return nil, err
	}
	if len(pkgs) != 1 {
		return nil, fmt.Errorf("expected one package, got %d", len(pkgs))
	}
	if len(pkgs[0].Errors) > 0 {
		return nil, fmt.Errorf("package errors: %v", pkgs[0].Errors)
	}
	prog, spkgs := ssautil.AllPackages(pkgs, ssa.InstantiateGenerics)
	prog.Build()
	e := &Engine{Prog: prog, Pkg: spkgs[0], Sizes: sizer{types.SizesFor("gc", "amd64")},
		MaxSteps: 2_000_000, MaxDepth: 4000, MaxAlloc: 4096, MaxConcretize: 64, MaxPaths: 20000,
		SolverKind: "z3", SolverTimeout: 20000, Workers: 16}
	e.setupErrTypes()
	e.registerStd()
	e.registerIntrinsics()
	e.registerFS()
	e.registerBuilder()
	return e, nil
}

// LoadRef loads reference packages (plain Go, GOARCH=386 sizes) from a scratch module directory.
// Only the listed packages get SSA bodies; their imports (fmt, ...) are modelled by the externals.
func (e *Engine) LoadRef(dir string, patterns ...string) (map[string]*ssa.Package, error) {
	cfg := &packages.Config{Mode: packages.NeedName | packages.NeedFiles | packages.NeedCompiledGoFiles | packages.NeedImports | packages.NeedDeps |
		packages.NeedTypes | packages.NeedTypesSizes | packages.NeedSyntax | packages.NeedTypesInfo | packages.NeedExportFile,
		Dir: dir, Env: goEnv("GOARCH=386", "GOOS=linux", "CGO_ENABLED=0")}
	pkgs, err := packages.Load(cfg, patterns...)
	if err != nil {
		return nil, err
	}
	var good []*packages.Package
	res := map[string]*ssa.Package{}
	bad := map[string]string{}
	for _, p := range pkgs {
		if len(p.Errors) > 0 {
			bad[p.PkgPath] = fmt.Sprint(p.Errors)
			continue
		}
		good = append(good, p)
	}
	if len(good) == 0 {
		e.RefRejected = bad
		return res, nil
	}
	prog, spkgs := ssautil.Packages(good, ssa.InstantiateGenerics)
	prog.Build()
	for i, sp := range spkgs {
		if sp != nil {
			res[good[i].PkgPath] = sp
		}
	}
	e.RefProg = prog
	e.RefSizes = sizer{types.SizesFor("gc", "386")}
	e.RefRejected = bad
	return res, nil
}

// ---------------------------------------------------------------------------------------------
// Native helper: the real code of /repo (+ overlay) compiled by the Go toolchain; used for delegation (tokenize,
// checkConstraint) and for replaying counterexamples.

type NativeHelper struct {
	Bin string
	mu  sync.Mutex
	cmd *exec.Cmd
	in  io.WriteCloser
	out *bufio.Reader

	tokCache sync.Map
}

// BuildNative compiles the helper from repo's working tree with the overlay (harness files + a main package).
func BuildNative(repo, workdir string, overlay map[string][]byte) (*NativeHelper, error) {
	if err := os.MkdirAll(workdir, 0o755); err != nil {
		return nil, err
	}
	repl := map[string]string{}
	for name, src := range overlay {
		p := filepath.Join(workdir, "ov_"+strings.ReplaceAll(name, "/", "_"))
		if err := os.WriteFile(p, src, 0o644); err != nil {
			return nil, err
		}
		repl[filepath.Join(repo, name)] = p
	}
	mainSrc := "package main\n\nimport goat \"" + TargetPath + "\"\n\nfunc main() { goat.VerifMain() }\n"
	mp := filepath.Join(workdir, "ov_main.go")
	if err := os.WriteFile(mp, []byte(mainSrc), 0o644); err != nil {
		return nil, err
	}
	repl[filepath.Join(repo, "zz_verifmain", "main.go")] = mp
	ovj, _ := json.Marshal(map[string]interface{}{"Replace": repl})
	ovp := filepath.Join(workdir, "overlay.json")
	if err := os.WriteFile(ovp, ovj, 0o644); err != nil {
		return nil, err
	}
	bin := filepath.Join(workdir, "native")
	cmd := exec.Command("go", "build", "-tags", "verif", "-overlay", ovp, "-o", bin, "./zz_verifmain")
	cmd.Dir = repo
	cmd.Env = goEnv()
	if out, err := cmd.CombinedOutput(); err != nil {
		return nil, fmt.Errorf("building native helper: %v\n%s", err, out)
	}
	return &NativeHelper{Bin: bin}, nil
}

func (n *NativeHelper) start() error {
	n.cmd = exec.Command(n.Bin, "serve")
	in, err := n.cmd.StdinPipe()
	if err != nil {
		return err
	}
	out, err := n.cmd.StdoutPipe()
	if err != nil {
		return err
	}
	n.cmd.Stderr = os.Stderr
	if err := n.cmd.Start(); err != nil {
		return err
	}
	n.in, n.out = in, bufio.NewReaderSize(out, 1<<20)
	return nil
}

// Request sends one JSON request to the serving helper and decodes the JSON reply into resp.
func (n *NativeHelper) Request(req interface{}, resp interface{}) error {
	n.mu.Lock()
	defer n.mu.Unlock()
	if n.cmd == nil {
		if err := n.start(); err != nil {
			return err
		}
	}
	b, _ := json.Marshal(req)
	if _, err := n.in.Write(append(b, '\n')); err != nil {
		n.cmd = nil
		return err
	}
	line, err := n.out.ReadBytes('\n')
	if err != nil {
		n.cmd.Process.Kill()
		n.cmd.Wait()
		n.cmd = nil
		return fmt.Errorf("native helper died: %v", err)
	}
	return json.Unmarshal(line, resp)
}

func (n *NativeHelper) Close() {
	n.mu.Lock()
	defer n.mu.Unlock()
	if n.cmd != nil {
		n.in.Close()
		n.cmd.Process.Kill()
		n.cmd.Wait()
		n.cmd = nil
	}
}

// RunOnce runs the helper as a one-shot process (isolated: a crash cannot take the server down).
func (n *NativeHelper) RunOnce(req interface{}, resp interface{}, timeoutSec int) (string, error) {
	b, _ := json.Marshal(req)
	cmd := exec.Command("timeout", fmt.Sprint(timeoutSec), n.Bin, "once")
	cmd.Stdin = strings.NewReader(string(b) + "\n")
	out, err := cmd.CombinedOutput()
	if err != nil {
		return string(out), err
	}
	// the reply is the last line
	lines := strings.Split(strings.TrimSpace(string(out)), "\n")
	if jerr := json.Unmarshal([]byte(lines[len(lines)-1]), resp); jerr != nil {
		return string(out), jerr
	}
	return string(out), nil
}

type NativeToken struct {
	File           string
	Off, Line, Col int
	Sym, Text      string
}

type tokReply struct {
	Tokens    []NativeToken
	Err       string
	HostPanic string // the delegated function panicked in the native build
}

func (n *NativeHelper) Tokenize(fname, src string) (tokReply, error) {
	key := fname + "\x00" + src
	if v, ok := n.tokCache.Load(key); ok {
		return v.(tokReply), nil
	}
	var r tokReply
	if err := n.Request(map[string]string{"Op": "tokenize", "Fname": fname, "Src": src}, &r); err != nil {
		return r, err
	}
	n.tokCache.Store(key, r)
	return r, nil
}
