package gosx

import (
	"fmt"
	"math"
	"unsafe"
)

// Lemma: two terms over the same inputs that must be equal for every input.
type Lemma struct {
	Name   string
	tt     *TermTable
	a, b   *Term
	Solver string
}

func eqTerm(tt *TermTable, a, b *Term) *Term {
	if a.W == SFP {
		// equal as floats incl. NaN and sign of zero
		bothNaN := tt.mk(OpBAnd, SBool, 0, 0, tt.mk(OpFIsNaN, SBool, 0, 0, a), tt.mk(OpFIsNaN, SBool, 0, 0, b))
		same := tt.mk(OpBAnd, SBool, 0, 0, tt.mk(OpFEq, SBool, 0, 0, a, b), tt.mk(OpEq, SBool, 0, 0, tt.mk(OpFIsNeg, SBool, 0, 0, a), tt.mk(OpFIsNeg, SBool, 0, 0, b)))
		return tt.mk(OpBOr, SBool, 0, 0, bothNaN, same)
	}
	return tt.mk(OpEq, SBool, 0, 0, a, b)
}

// RewriteLemmas lists, for every normalisation rule of the term constructors, the raw encoding and the normal form.
func RewriteLemmas() []Lemma {
	var out []Lemma
	add := func(name, solver string, build func(tt *TermTable) (raw, norm *Term)) {
		tt := NewTermTable()
		a, b := build(tt)
		out = append(out, Lemma{Name: name, tt: tt, a: a, b: b, Solver: solver})
	}
	widths := []struct {
		w      int
		signed bool
	}{{8, true}, {8, false}, {32, true}, {32, false}}
	targets := []struct {
		n      int
		signed bool
	}{{8, true}, {8, false}, {16, true}, {32, true}, {32, false}, {64, true}, {64, false}}
	for _, src := range widths {
		for _, dst := range targets {
			src, dst := src, dst
			add(fmt.Sprintf("F2I_%d%v(I2F_%d%v(x))", dst.n, dst.signed, src.w, src.signed), "cvc5", func(tt *TermTable) (*Term, *Term) {
				x := tt.Var("x", src.w)
				aux := 0
				if src.signed {
					aux = 1
				}
				rawF := tt.mk(OpI2F, SFP, aux, 0, x)
				return tt.f2iGeneric(rawF, dst.n, dst.signed), tt.F2I(tt.I2F(x, src.signed), dst.n, dst.signed)
			})
		}
		for _, op := range []Op{OpFLt, OpFLe, OpFEq} {
			for _, src2 := range widths {
				src, src2, op := src, src2, op
				add(fmt.Sprintf("fcmp%d(I2F_%d%v(x),I2F_%d%v(y))", op, src.w, src.signed, src2.w, src2.signed), "cvc5", func(tt *TermTable) (*Term, *Term) {
					x, y := tt.Var("x", src.w), tt.Var("y", src2.w)
					ax, ay := 0, 0
					if src.signed {
						ax = 1
					}
					if src2.signed {
						ay = 1
					}
					raw := tt.mk(op, SBool, 0, 0, tt.mk(OpI2F, SFP, ax, 0, x), tt.mk(OpI2F, SFP, ay, 0, y))
					return raw, tt.FCmp(op, tt.I2F(x, src.signed), tt.I2F(y, src2.signed))
				})
			}
			for _, c := range []float64{0, 1, -1, 255, 256, -129, 2147483647, -2147483648, 4294967295} {
				src, op, c := src, op, c
				add(fmt.Sprintf("fcmp%d(I2F_%d%v(x),%v)", op, src.w, src.signed, c), "cvc5", func(tt *TermTable) (*Term, *Term) {
					x := tt.Var("x", src.w)
					ax := 0
					if src.signed {
						ax = 1
					}
					raw := tt.mk(op, SBool, 0, 0, tt.mk(OpI2F, SFP, ax, 0, x), tt.FP(c))
					return raw, tt.FCmp(op, tt.I2F(x, src.signed), tt.FP(c))
				})
			}
		}
		// I2F of an extension is I2F of the inner value
		src := src
		add(fmt.Sprintf("I2F(ext64(x%d%v))", src.w, src.signed), "cvc5", func(tt *TermTable) (*Term, *Term) {
			x := tt.Var("x", src.w)
			var ext *Term
			if src.signed {
				ext = tt.mk(OpSExt, 64, 64-src.w, 0, x)
			} else {
				ext = tt.mk(OpZExt, 64, 64-src.w, 0, x)
			}
			return tt.mk(OpI2F, SFP, 1, 0, ext), tt.I2F(tt.Resize(x, 64, src.signed), true)
		})
	}
	add("fmul(x,-1)=fneg(x)", "cvc5", func(tt *TermTable) (*Term, *Term) {
		x := tt.Var("x", SFP)
		return tt.mk(OpFMul, SFP, 0, 0, x, tt.FP(-1)), tt.FBin(OpFMul, x, tt.FP(-1))
	})
	add("fmul(x,1)=x", "cvc5", func(tt *TermTable) (*Term, *Term) {
		x := tt.Var("x", SFP)
		return tt.mk(OpFMul, SFP, 0, 0, x, tt.FP(1)), tt.FBin(OpFMul, x, tt.FP(1))
	})
	// truncation distributes over ring operations of extensions
	for _, op := range []Op{OpAdd, OpSub, OpMul, OpAnd, OpOr, OpXor} {
		op := op
		add(fmt.Sprintf("extract31_0(op%d(sext64 a, zext64 b))", op), "z3", func(tt *TermTable) (*Term, *Term) {
			a, b := tt.Var("a", 32), tt.Var("b", 32)
			ea, eb := tt.mk(OpSExt, 64, 32, 0, a), tt.mk(OpZExt, 64, 32, 0, b)
			raw := tt.mk(OpExtract, 32, 31, 0, tt.mk(op, 64, 0, 0, ea, eb))
			return raw, tt.Extract(tt.Bin(op, tt.SExt(a, 32), tt.ZExt(b, 32)), 31, 0)
		})
	}
	add("extract7_0(neg(sext32 a8))", "z3", func(tt *TermTable) (*Term, *Term) {
		a := tt.Var("a", 8)
		raw := tt.mk(OpExtract, 8, 7, 0, tt.mk(OpNeg, 32, 0, 0, tt.mk(OpSExt, 32, 24, 0, a)))
		return raw, tt.Extract(tt.Un(OpNeg, tt.SExt(a, 24)), 7, 0)
	})
	add("eq(zext(x8),300)=false;eq(sext(x8),-3)", "z3", func(tt *TermTable) (*Term, *Term) {
		x := tt.Var("x", 8)
		raw := tt.mk(OpBOr, SBool, 0, 0, tt.mk(OpEq, SBool, 0, 0, tt.mk(OpZExt, 32, 24, 0, x), tt.BV(300, 32)), tt.mk(OpEq, SBool, 0, 0, tt.mk(OpSExt, 32, 24, 0, x), tt.BV(0xfffffffd, 32)))
		return raw, tt.Or(tt.Eq(tt.ZExt(x, 24), tt.BV(300, 32)), tt.Eq(tt.SExt(x, 24), tt.BV(0xfffffffd, 32)))
	})
	add("ult(and(x,15),16)", "z3", func(tt *TermTable) (*Term, *Term) {
		x := tt.Var("x", 64)
		raw := tt.mk(OpULt, SBool, 0, 0, tt.mk(OpAnd, 64, 0, 0, x, tt.BV(15, 64)), tt.BV(16, 64))
		return raw, tt.Cmp(OpULt, tt.Bin(OpAnd, x, tt.BV(15, 64)), tt.BV(16, 64))
	})
	add("sle(0,zext(x32))", "z3", func(tt *TermTable) (*Term, *Term) {
		x := tt.Var("x", 32)
		raw := tt.mk(OpSLe, SBool, 0, 0, tt.BV(0, 64), tt.mk(OpZExt, 64, 32, 0, x))
		return raw, tt.Cmp(OpSLe, tt.BV(0, 64), tt.ZExt(x, 32))
	})
	for _, op := range []Op{OpShl, OpLShr, OpAShr} {
		op := op
		add(fmt.Sprintf("shift%d(a,ite(32<=c,32,c))=shift(a,c)", op), "z3", func(tt *TermTable) (*Term, *Term) {
			a, c := tt.Var("a", 32), tt.Var("c", 32)
			sat := tt.mk(OpIte, 32, 0, 0, tt.mk(OpULe, SBool, 0, 0, tt.BV(32, 32), c), tt.BV(32, 32), c)
			return tt.mk(op, 32, 0, 0, a, sat), tt.Bin(op, a, tt.Ite(tt.Cmp(OpULe, tt.BV(32, 32), c), tt.BV(32, 32), c))
		})
	}
	add("ule(32,sext64(x))=ule(32,x);ult(5,zext64(x))", "z3", func(tt *TermTable) (*Term, *Term) {
		x := tt.Var("x", 32)
		raw := tt.mk(OpBAnd, SBool, 0, 0, tt.mk(OpULe, SBool, 0, 0, tt.BV(32, 64), tt.mk(OpSExt, 64, 32, 0, x)), tt.mk(OpULt, SBool, 0, 0, tt.BV(5, 64), tt.mk(OpZExt, 64, 32, 0, x)))
		return raw, tt.And(tt.Cmp(OpULe, tt.BV(32, 64), tt.SExt(x, 32)), tt.Cmp(OpULt, tt.BV(5, 64), tt.ZExt(x, 32)))
	})
	add("mul(x,-1)=neg(x);xor(x,-1)=not(x)", "z3", func(tt *TermTable) (*Term, *Term) {
		x := tt.Var("x", 32)
		raw := tt.mk(OpXor, 32, 0, 0, tt.mk(OpMul, 32, 0, 0, x, tt.BV(0xffffffff, 32)), tt.mk(OpXor, 32, 0, 0, x, tt.BV(0xffffffff, 32)))
		return raw, tt.Bin(OpXor, tt.Bin(OpMul, x, tt.BV(0xffffffff, 32)), tt.Bin(OpXor, x, tt.BV(0xffffffff, 32)))
	})
	return out
}

// CheckLemma asks the solver whether the two sides can differ; "unsat" means the rule is valid.
func CheckLemma(l Lemma) string {
	var stats SolverStats
	s, err := NewSolver(l.Solver, 120000, &stats)
	if err != nil {
		return "error: " + err.Error()
	}
	defer s.Close()
	if l.a == l.b {
		return "unsat" // syntactically identical
	}
	neq := l.tt.mk(OpBNot, SBool, 0, 0, eqTerm(l.tt, l.a, l.b))
	v, m := s.Check([]*Term{neq}, l.tt.Vars, true)
	if v == Sat {
		return fmt.Sprintf("sat %v", m)
	}
	return v.String()
}

type ptrElem struct {
	a int
	f float64
	p interface{ M() }
}

// SelftestConcreteModels compares the engine's concrete float→int and append-growth models with the native build.
func SelftestConcreteModels() (int, []string) {
	var bad []string
	n := 0
	vals := []float64{0, 0.5, -0.5, 1, -1, 127, 128, 129, -128, -129, 255, 256, 300, 65535, 65536, 2147483647, 2147483648, 2147483649, -2147483648, -2147483649,
		4294967295, 4294967296, 5e9, 1e10, 9.2e18, 9223372036854775807, 9223372036854775808, 1e19, 1.8e19, 1.9e19, -1e19, 1e300, -1e300, math.Inf(1), math.Inf(-1), math.NaN(), 3.99, -3.99}
	for _, f := range vals {
		chk := func(name string, got, want uint64) {
			n++
			if got != want {
				bad = append(bad, fmt.Sprintf("%s(%v): model %#x native %#x", name, f, got, want))
			}
		}
		chk("int8", f2iConcrete(f, 8, true), uint64(uint8(int8(f))))
		chk("uint8", f2iConcrete(f, 8, false), uint64(uint8(f)))
		chk("int16", f2iConcrete(f, 16, true), uint64(uint16(int16(f))))
		chk("uint16", f2iConcrete(f, 16, false), uint64(uint16(f)))
		chk("int32", f2iConcrete(f, 32, true), uint64(uint32(int32(f))))
		chk("uint32", f2iConcrete(f, 32, false), uint64(uint32(f)))
		chk("int64", f2iConcrete(f, 64, true), uint64(int64(f)))
		chk("uint64", f2iConcrete(f, 64, false), uint64(f))
	}
	// append growth
	for old := 0; old <= 600; old++ {
		for _, add := range []int{1, 2, 3, 7, 100} {
			n += 4
			if g, w := growCapHdr(old, old+add, 8, false), cap(append(make([]int64, old, old), make([]int64, add)...)); g != w {
				bad = append(bad, fmt.Sprintf("growslice int64 old=%d add=%d: model %d native %d", old, add, g, w))
			}
			if g, w := growCapHdr(old, old+add, 1, false), cap(append(make([]byte, old, old), make([]byte, add)...)); g != w {
				bad = append(bad, fmt.Sprintf("growslice byte old=%d add=%d: model %d native %d", old, add, g, w))
			}
			if g, w := growCapHdr(old, old+add, int64(unsafe.Sizeof(ptrElem{})), true), cap(append(make([]ptrElem, old, old), make([]ptrElem, add)...)); g != w {
				bad = append(bad, fmt.Sprintf("growslice struct32 old=%d add=%d: model %d native %d", old, add, g, w))
			}
			if g, w := growCapHdr(old, old+add, 8, true), cap(append(make([]*int, old, old), make([]*int, add)...)); g != w {
				bad = append(bad, fmt.Sprintf("growslice ptr old=%d add=%d: model %d native %d", old, add, g, w))
			}
		}
	}
	if len(bad) > 20 {
		bad = append(bad[:20], fmt.Sprintf("... and %d more", len(bad)-20))
	}
	return n, bad
}
