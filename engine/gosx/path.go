package gosx

import (
	"fmt"
	"go/types"
	"os"
	"runtime/debug"
	"sort"
	"strings"
	"sync"
	"time"

	"golang.org/x/tools/go/ssa"
	"golang.org/x/tools/go/types/typeutil"
)

type extFn func(fr *frame, args []value) value

// Engine is the state shared by all paths of all explorations of one run.
type Engine struct {
	Prog     *ssa.Program
	Pkg      *ssa.Package // package under test (goatlang)
	Sizes    sizer
	RefProg  *ssa.Program // reference programs (GOARCH=386), may be nil
	RefSizes sizer

	MaxSteps      int
	MaxDepth      int
	MaxAlloc      int
	MaxConcretize int
	MaxPaths      int
	SolverKind    string
	SolverTimeout int // ms
	Workers       int
	CollectFuncs  bool
	Trace         bool

	StringTableIndex bool
	MapOrderHook     func(ex *Exec, entries []*mapEntry) []*mapEntry

	Stats SolverStats

	externals map[string]extFn
	extMu     sync.Mutex
	msCache   typeutil.MethodSetCache
	msMu      sync.Mutex

	rtErrorString types.Type // runtime.errorString-like (Error() prefixes "runtime error: ")
	rtPlainError  types.Type // plain error (message as is)

	funcsMu   sync.Mutex
	FuncsSeen map[string]bool
	ExtUsed   map[string]int

	Native          *NativeHelper
	RefRejected     map[string]string
	Cfg             map[string]int
	blockHooks      map[*ssa.BasicBlock]func(ex *Exec, fr *frame)
	returnHooks     map[*ssa.Function]func(ex *Exec, fr *frame)
	NoSymIndexLoads bool   // disable if-then-else loads through symbolic indexes (fork per index value instead)
	Tactic          string // optional z3 tactic for check-sat-using (e.g. QF_BV pipelines)
}

func (e *Engine) methodSet(t types.Type) *types.MethodSet {
	e.msMu.Lock()
	defer e.msMu.Unlock()
	return e.msCache.MethodSet(t)
}

func (e *Engine) lookupMethod(t types.Type, m *types.Func) *ssa.Function {
	if t == e.rtErrorString || t == e.rtPlainError {
		return nil
	}
	prog := e.Prog
	if e.RefProg != nil {
		// pick the program the type belongs to
		if n, ok := types.Unalias(t).(*types.Named); ok && n.Obj().Pkg() != nil {
			if e.RefProg.Package(n.Obj().Pkg()) != nil {
				prog = e.RefProg
			}
		} else if p, ok := t.(*types.Pointer); ok {
			if n, ok := types.Unalias(p.Elem()).(*types.Named); ok && n.Obj().Pkg() != nil && e.RefProg.Package(n.Obj().Pkg()) != nil {
				prog = e.RefProg
			}
		}
	}
	return prog.LookupMethod(t, m.Pkg(), m.Name())
}

// sibling is an unexplored alternative.
type sibling struct {
	prefix []uint64
	model  Model
}

// Failure is a violated assertion with the model that violates it.
type Failure struct {
	ID        string
	Msg       string
	Model     Model
	Decisions []uint64
	Detail    map[string]interface{}
}

// PathResult summarises one explored path.
type PathResult struct {
	End        string // "ok" or an endKind
	Msg        string
	Decisions  int
	Failures   []Failure
	Incomplete []string
	Steps      int
	Asserts    int // assertions discharged (unsat) on this path
	Notes      map[string]interface{}
}

// Exec is the state of one path.
type Exec struct {
	eng        *Engine
	tt         *TermTable
	solver     *Solver
	pc         []*Term
	sent       int
	prefix     []uint64
	decisions  []uint64
	model      Model
	globals    map[*ssa.Global]*value
	steps      int
	depth      int
	top        *frame
	permN      int
	concCap    int
	panicFrom  string
	lazyForced []string
	funcsSeen  map[*ssa.Function]bool
	extUsed    map[string]int

	OutGoat []Seg
	OutRef  []Seg
	RefSide bool // true while the driver runs the reference side (for assumption accounting)

	res      PathResult
	siblings *[]sibling
	sibMu    *sync.Mutex

	RefAssumes map[string]int
	User       map[string]interface{} // driver scratch
	inited     map[*ssa.Package]bool
}

func (ex *Exec) TT() *TermTable { return ex.tt }

func (ex *Exec) inReplay() bool { return len(ex.decisions) < len(ex.prefix) }

func (ex *Exec) addPC(c *Term) {
	if isTrue(c) {
		return
	}
	ex.pc = append(ex.pc, c)
}

func (ex *Exec) flushPC() {
	for ; ex.sent < len(ex.pc); ex.sent++ {
		ex.solver.Assert(ex.pc[ex.sent])
	}
}

func (ex *Exec) evalBool(c *Term) bool {
	v, _ := Eval(c, ex.model)
	return v != 0
}

func (ex *Exec) pushSibling(dec uint64, m Model) {
	p := make([]uint64, len(ex.decisions)+1)
	copy(p, ex.decisions)
	p[len(ex.decisions)] = dec
	ex.sibMu.Lock()
	*ex.siblings = append(*ex.siblings, sibling{prefix: p, model: m})
	ex.sibMu.Unlock()
}

// branch decides a symbolic condition, forking when both outcomes are feasible.
func (ex *Exec) branch(cond *Term, why string) bool {
	if cond.IsConst() {
		return cond.C != 0
	}
	if ex.inReplay() {
		d := ex.prefix[len(ex.decisions)]
		ex.decisions = append(ex.decisions, d)
		if d == 1 {
			ex.addPC(cond)
		} else {
			ex.addPC(ex.tt.Not(cond))
		}
		return d == 1
	}
	if len(ex.decisions) >= ex.eng.MaxDecisions() {
		panic(pathEnd{kind: endUnwind, msg: "decision bound exceeded"})
	}
	if traceDec {
		fmt.Fprintf(os.Stderr, "decision %d: %s @ %s\n", len(ex.decisions), why, ex.targetStack(3))
	}
	taken := ex.evalBool(cond)
	other := ex.tt.Not(cond)
	if !taken {
		other = cond
	}
	ex.flushPC()
	v, m := ex.solver.Check([]*Term{other}, ex.tt.Vars, true)
	switch v {
	case Sat:
		d := uint64(1)
		if taken {
			d = 0
		}
		ex.pushSibling(d, m)
	case Unknown:
		ex.res.Incomplete = append(ex.res.Incomplete, "solver unknown on branch: "+why)
	}
	if taken {
		ex.decisions = append(ex.decisions, 1)
		ex.addPC(cond)
	} else {
		ex.decisions = append(ex.decisions, 0)
		ex.addPC(ex.tt.Not(cond))
	}
	return taken
}

func (e *Engine) MaxDecisions() int { return 4096 }

var traceDec = os.Getenv("GOSX_TRACE_DEC") != ""

// concretize picks a concrete value for t (a 64-bit BV unless noted), forking over all feasible values (at most max).
func (ex *Exec) concretize(t *Term, max int, why string) uint64 {
	if t.IsConst() {
		return t.C
	}
	tt := ex.tt
	if ex.inReplay() {
		d := ex.prefix[len(ex.decisions)]
		ex.decisions = append(ex.decisions, d)
		ex.addPC(tt.Eq(t, tt.BV(d, t.W)))
		return d
	}
	if traceDec {
		fmt.Fprintf(os.Stderr, "concretize %d: %s @ %s\n", len(ex.decisions), why, ex.targetStack(3))
	}
	v0, _ := Eval(t, ex.model)
	found := []uint64{v0}
	ex.flushPC()
	excl := []*Term{tt.Not(tt.Eq(t, tt.BV(v0, t.W)))}
	limit := max
	if limit <= 0 || limit > ex.eng.MaxConcretize {
		limit = ex.eng.MaxConcretize
	}
	if ex.concCap > limit {
		limit = ex.concCap
	}
	for {
		v, m := ex.solver.Check(excl, ex.tt.Vars, true)
		if v == Unknown {
			ex.res.Incomplete = append(ex.res.Incomplete, "solver unknown while concretizing: "+why)
			break
		}
		if v == Unsat {
			break
		}
		if len(found) >= limit {
			ex.res.Incomplete = append(ex.res.Incomplete, fmt.Sprintf("more than %d values while concretizing: %s", limit, why))
			break
		}
		nv, _ := Eval(t, m)
		found = append(found, nv)
		ex.pushSibling(nv, m)
		excl = append(excl, tt.Not(tt.Eq(t, tt.BV(nv, t.W))))
	}
	ex.decisions = append(ex.decisions, v0)
	ex.addPC(tt.Eq(t, tt.BV(v0, t.W)))
	return v0
}

// Assume constrains the path; an unsatisfiable assumption ends it.
func (ex *Exec) Assume(c *Term) {
	if c.IsConst() {
		if c.C == 0 {
			panic(pathEnd{kind: endInfeasible, msg: "assumption is false"})
		}
		return
	}
	ex.addPC(c)
	if ex.inReplay() {
		return
	}
	if ex.evalBool(c) {
		return
	}
	ex.flushPC()
	v, m := ex.solver.Check(nil, ex.tt.Vars, true)
	switch v {
	case Sat:
		ex.model = m
	case Unsat:
		panic(pathEnd{kind: endInfeasible, msg: "assumption unsatisfiable"})
	default:
		panic(pathEnd{kind: endUnknown, msg: "solver unknown on assumption"})
	}
}

func (ex *Exec) assumeRef(c *Term, why string) {
	if ex.RefAssumes == nil {
		ex.RefAssumes = map[string]int{}
	}
	if !isTrue(c) {
		ex.RefAssumes[why]++
	}
	ex.Assume(c)
}

// Assert checks that c holds on every input consistent with the path condition.
// It returns true when discharged. On a counterexample it records a Failure and continues under the assumption c.
func (ex *Exec) Assert(c *Term, id, msg string, detail map[string]interface{}) bool {
	if isTrue(c) {
		ex.res.Asserts++
		return true
	}
	neg := ex.tt.Not(c)
	var m Model
	v := Unknown
	if !ex.inReplay() && !neg.IsConst() && ex.evalBool(neg) {
		v, m = Sat, ex.model
		// count it as a query answered by model evaluation
	} else if isFalse(c) {
		v, m = Sat, ex.model
	} else {
		ex.flushPC()
		v, m = ex.solver.Check([]*Term{neg}, ex.tt.Vars, true)
	}
	switch v {
	case Unsat:
		ex.res.Asserts++
		return true
	case Unknown:
		ex.res.Incomplete = append(ex.res.Incomplete, "solver unknown on assertion "+id)
		return false
	}
	cp := Model{}
	for k, val := range m {
		cp[k] = val
	}
	ex.res.Failures = append(ex.res.Failures, Failure{ID: id, Msg: msg, Model: cp, Decisions: append([]uint64(nil), ex.decisions...), Detail: detail})
	if isFalse(c) {
		panic(pathEnd{kind: endStop, msg: "assertion failed on every input of the path: " + id})
	}
	ex.Assume(c)
	return false
}

// Feasible reports whether c can hold under the path condition (no fork, no assumption).
func (ex *Exec) Feasible(c *Term) Verdict {
	if c.IsConst() {
		if c.C != 0 {
			return Sat
		}
		return Unsat
	}
	if !ex.inReplay() && ex.evalBool(c) {
		return Sat
	}
	ex.flushPC()
	v, _ := ex.solver.Check([]*Term{c}, nil, false)
	return v
}

func (ex *Exec) global(g *ssa.Global) *value {
	if p, ok := ex.globals[g]; ok {
		return p
	}
	ex.ensureInit(g.Pkg)
	if p, ok := ex.globals[g]; ok {
		return p
	}
	if g.Pkg != nil && !ex.eng.initAllowed(g.Pkg) && !knownGlobals[g.String()] {
		panic(pathEnd{kind: endUnsupported, msg: "global " + g.String() + " of a dependency package whose initialiser is not run"})
	}
	cell := new(value)
	*cell = ex.initialGlobal(g)
	ex.globals[g] = cell
	return cell
}

func (ex *Exec) emit(fr *frame, segs []Seg) {
	if fr != nil && fr.fn != nil && fr.fn.Prog == ex.eng.RefProg && ex.eng.RefProg != nil {
		ex.OutRef = append(ex.OutRef, segs...)
	} else {
		ex.OutGoat = append(ex.OutGoat, segs...)
	}
}

// ---------------------------------------------------------------------------------------------
// Exploration

type Report struct {
	Paths      int
	ByEnd      map[string]int
	Failures   []Failure
	Incomplete map[string]int
	Asserts    int
	Steps      int64
	Truncated  bool
	EndMsgs    map[string]int
	Notes      []map[string]interface{}
	RefAssumes map[string]int
	Wall       time.Duration
	MaxDec     int
}

func (r *Report) Merge(o *Report) {
	r.Paths += o.Paths
	for k, v := range o.ByEnd {
		r.ByEnd[k] += v
	}
	r.Failures = append(r.Failures, o.Failures...)
	for k, v := range o.Incomplete {
		r.Incomplete[k] += v
	}
	for k, v := range o.EndMsgs {
		r.EndMsgs[k] += v
	}
	for k, v := range o.RefAssumes {
		r.RefAssumes[k] += v
	}
	r.Asserts += o.Asserts
	r.Steps += o.Steps
	r.Truncated = r.Truncated || o.Truncated
	r.Notes = append(r.Notes, o.Notes...)
	r.Wall += o.Wall
	if o.MaxDec > r.MaxDec {
		r.MaxDec = o.MaxDec
	}
}

func NewReport() *Report {
	return &Report{ByEnd: map[string]int{}, Incomplete: map[string]int{}, EndMsgs: map[string]int{}, RefAssumes: map[string]int{}}
}

// solverPool hands out live solver processes to explorations.
type solverPool struct {
	mu   sync.Mutex
	free []*Solver
	eng  *Engine
}

var pools sync.Map // *Engine -> *solverPool

func (e *Engine) pool() *solverPool {
	p, _ := pools.LoadOrStore(e, &solverPool{eng: e})
	return p.(*solverPool)
}

func (p *solverPool) get(kind string) *Solver {
	p.mu.Lock()
	for i, s := range p.free {
		if s.Kind == kind && !s.dead {
			p.free = append(p.free[:i], p.free[i+1:]...)
			p.mu.Unlock()
			return s
		}
	}
	p.mu.Unlock()
	s, err := NewSolver(kind, p.eng.SolverTimeout, &p.eng.Stats)
	if err != nil {
		panic(err)
	}
	return s
}

func (p *solverPool) put(s *Solver) {
	if s.dead {
		s.Close()
		return
	}
	p.mu.Lock()
	p.free = append(p.free, s)
	p.mu.Unlock()
}

// CloseSolvers terminates all pooled solver processes.
func (e *Engine) CloseSolvers() {
	p := e.pool()
	p.mu.Lock()
	for _, s := range p.free {
		s.Close()
	}
	p.free = nil
	p.mu.Unlock()
}

// Explore runs task on every feasible path (sequentially inside this call; callers parallelise over tasks).
func (e *Engine) Explore(task func(ex *Exec)) *Report {
	return e.ExploreWith(task, e.SolverKind, 1)
}

// ExploreWith explores with the given solver and number of workers for this one task.
func (e *Engine) ExploreWith(task func(ex *Exec), solverKind string, workers int) *Report {
	t0 := time.Now()
	if s := os.Getenv("GOSX_MAXPATHS"); s != "" {
		fmt.Sscan(s, &e.MaxPaths)
	}
	rep := NewReport()
	var mu sync.Mutex
	queue := []sibling{{}}
	active := 0
	cond := sync.NewCond(&mu)
	var wg sync.WaitGroup
	for w := 0; w < workers; w++ {
		wg.Add(1)
		go func() {
			defer wg.Done()
			solver := e.pool().get(solverKind)
			solver.Tactic = e.Tactic
			defer func() { solver.Tactic = ""; e.pool().put(solver) }()
			for {
				mu.Lock()
				for len(queue) == 0 && active > 0 {
					cond.Wait()
				}
				if len(queue) == 0 || (e.MaxPaths > 0 && rep.Paths >= e.MaxPaths) {
					if len(queue) > 0 {
						rep.Truncated = true
						queue = nil
					}
					mu.Unlock()
					cond.Broadcast()
					return
				}
				sb := queue[len(queue)-1]
				queue = queue[:len(queue)-1]
				active++
				rep.Paths++
				mu.Unlock()

				var sibs []sibling
				var sibMu sync.Mutex
				res, ex := e.runPath(task, sb, solver, &sibs, &sibMu)

				mu.Lock()
				active--
				queue = append(queue, sibs...)
				if pg := os.Getenv("GOSX_PROGRESS"); pg != "" && (pg == "2" || rep.Paths%500 == 0) {
					fmt.Fprintf(os.Stderr, "progress: paths=%d queue=%d failures=%d elapsed=%v\n", rep.Paths, len(queue), len(rep.Failures), time.Since(t0))
				}
				rep.ByEnd[res.End]++
				if res.End != "ok" && res.Msg != "" {
					rep.EndMsgs[res.End+": "+res.Msg]++
				}
				rep.Failures = append(rep.Failures, res.Failures...)
				for _, s := range res.Incomplete {
					rep.Incomplete[s]++
				}
				rep.Asserts += res.Asserts
				rep.Steps += int64(res.Steps)
				if res.Decisions > rep.MaxDec {
					rep.MaxDec = res.Decisions
				}
				if res.Notes != nil {
					rep.Notes = append(rep.Notes, res.Notes)
				}
				for k, v := range ex.RefAssumes {
					rep.RefAssumes[k] += v
				}
				mu.Unlock()
				cond.Broadcast()
			}
		}()
	}
	wg.Wait()
	rep.Wall = time.Since(t0)
	return rep
}

func (e *Engine) runPath(task func(ex *Exec), sb sibling, solver *Solver, sibs *[]sibling, sibMu *sync.Mutex) (res PathResult, ex *Exec) {
	solver.Reset()
	ex = &Exec{eng: e, tt: NewTermTable(), solver: solver, prefix: sb.prefix, model: sb.model, globals: map[*ssa.Global]*value{},
		siblings: sibs, sibMu: sibMu, funcsSeen: map[*ssa.Function]bool{}, extUsed: map[string]int{}, User: map[string]interface{}{}, inited: map[*ssa.Package]bool{}}
	if ex.model == nil {
		ex.model = Model{}
	}
	ex.res.End = "ok"
	func() {
		defer func() {
			if r := recover(); r != nil {
				switch r := r.(type) {
				case pathEnd:
					ex.res.End, ex.res.Msg = r.kind.String(), r.msg
				case targetPanic:
					ex.res.End, ex.res.Msg = "uncaught-panic", ex.panicText(r.v)
				default:
					ex.res.End, ex.res.Msg = "engine-error", fmt.Sprint(r)+" @ "+ex.targetStack(6)
					if e.Trace || os.Getenv("GOSX_DEBUG") != "" {
						fmt.Fprintf(os.Stderr, "engine error: %v\n%s\n", r, debug.Stack())
					}
				}
			}
		}()
		task(ex)
	}()
	ex.res.Decisions = len(ex.decisions)
	ex.res.Steps = ex.steps
	if e.CollectFuncs {
		e.funcsMu.Lock()
		if e.FuncsSeen == nil {
			e.FuncsSeen = map[string]bool{}
			e.ExtUsed = map[string]int{}
		}
		for f := range ex.funcsSeen {
			e.FuncsSeen[f.String()] = true
		}
		for k, v := range ex.extUsed {
			e.ExtUsed[k] += v
		}
		e.funcsMu.Unlock()
	}
	return ex.res, ex
}

// SortedFuncs returns the functions of the package under test that were executed symbolically.
func (e *Engine) SortedFuncs(prefix string) []string {
	e.funcsMu.Lock()
	defer e.funcsMu.Unlock()
	var r []string
	for f := range e.FuncsSeen {
		if prefix == "" || len(f) >= len(prefix) && containsStr(f, prefix) {
			r = append(r, f)
		}
	}
	sort.Strings(r)
	return r
}

func containsStr(s, sub string) bool {
	for i := 0; i+len(sub) <= len(s); i++ {
		if s[i:i+len(sub)] == sub {
			return true
		}
	}
	return false
}

// ---------------------------------------------------------------------------------------------
// Driver-facing helpers

// Input returns the symbolic input named name of width w (SBool, SFP or bits).
func (ex *Exec) Input(name string, w int) *Term { return ex.tt.Var(name, w) }

// Call runs fn with args, catching target panics: it returns the result and the panic payload (nil if none).
func (ex *Exec) Call(fn value, args ...value) (res value, pan *targetPanic) {
	defer func() {
		if r := recover(); r != nil {
			if tp, ok := r.(targetPanic); ok {
				pan = &tp
				return
			}
			panic(r)
		}
	}()
	res = ex.call(nil, 0, fn, args)
	return
}

// CallBounded is Call, except that exceeding the step bound or the call-depth bound inside the call does not end the path: the overrun is
// reported (unwound != "") and the step counter restarts, so that the caller can still run the other side of a
// comparison ("one side terminates within the bound, the other does not").
func (ex *Exec) CallBounded(fn value, args ...value) (res value, pan *targetPanic, unwound string) {
	top, depth := ex.top, ex.depth
	defer func() {
		if r := recover(); r != nil {
			if tp, ok := r.(targetPanic); ok {
				pan = &tp
				return
			}
			if pe, ok := r.(pathEnd); ok && pe.kind == endUnwind && (strings.HasPrefix(pe.msg, "step bound") || strings.HasPrefix(pe.msg, "interpreter call depth bound")) {
				unwound = pe.msg
				ex.top, ex.depth = top, depth
				ex.steps = 0
				return
			}
			panic(r)
		}
	}()
	res = ex.call(nil, 0, fn, args)
	return
}

// EndUnwind ends the current path as an unwinding (bound exceeded) with the given message.
func (ex *Exec) EndUnwind(msg string) { panic(pathEnd{kind: endUnwind, msg: msg}) }

// Func looks up a package-level function of the package under test.
func (ex *Exec) Func(name string) *ssa.Function {
	f := ex.eng.Pkg.Func(name)
	if f == nil {
		panic(pathEnd{kind: endUnsupported, msg: "no function " + name + " in package under test"})
	}
	return f
}

func (ex *Exec) Note(k string, v interface{}) {
	if ex.res.Notes == nil {
		ex.res.Notes = map[string]interface{}{}
	}
	ex.res.Notes[k] = v
}

func (ex *Exec) Incomplete(msg string) { ex.res.Incomplete = append(ex.res.Incomplete, msg) }

// Stop ends the path (successfully explored up to here).
func (ex *Exec) Stop(msg string) { panic(pathEnd{kind: endStop, msg: msg}) }

func (ex *Exec) PanicText(p *targetPanic) string { return ex.panicText(p.v) }
func (ex *Exec) Model() Model                    { return ex.model }

// ModelFor asks the solver for a model of the path condition together with c (no fork, no assumption).
func (ex *Exec) ModelFor(c *Term) (Model, bool) {
	if ex.inReplay() {
		return nil, false
	}
	ex.flushPC()
	v, m := ex.solver.Check([]*Term{c}, ex.tt.Vars, true)
	if v != Sat {
		return nil, false
	}
	cp := Model{}
	for k, val := range m {
		cp[k] = val
	}
	return cp, true
}

// InputVars lists the symbolic inputs declared so far.
func (ex *Exec) InputVars() []*Term { return ex.tt.Vars }
func (ex *Exec) PCLen() int                      { return len(ex.pc) }

// targetStack renders the innermost n target frames (for diagnostics).
func (ex *Exec) targetStack(n int) string {
	s := ""
	for fr := ex.top; fr != nil && n > 0; fr, n = fr.caller, n-1 {
		if s != "" {
			s += " < "
		}
		s += fr.fn.String()
	}
	return s
}
