// Package gosx is a symbolic executor for Go SSA: concrete heap, symbolic scalar leaves.
package gosx

import (
	"fmt"
	"math"
	"math/big"
	"strconv"
	"strings"
)

// ---------------------------------------------------------------------------------------------
// Terms: hash-consed DAG over sorts Bool, BV(n), FP64.

type Op uint8

const (
	OpVar Op = iota
	OpConst
	// BV
	OpAdd
	OpSub
	OpMul
	OpUDiv
	OpSDiv
	OpURem
	OpSRem
	OpAnd
	OpOr
	OpXor
	OpNot
	OpNeg
	OpShl
	OpLShr
	OpAShr
	OpConcat
	OpExtract // aux=hi, aux2=lo
	OpZExt    // aux=extra bits
	OpSExt
	OpIte
	// Bool
	OpBAnd
	OpBOr
	OpBNot
	OpEq
	OpULt
	OpSLt
	OpULe
	OpSLe
	OpFLt
	OpFLe
	OpFEq
	OpFIsNaN
	OpFIsInf
	OpFIsNeg
	// FP
	OpFAdd
	OpFSub
	OpFMul
	OpFDiv
	OpFNeg
	OpFAbs
	OpI2F  // aux=1 signed / 0 unsigned; arg BV
	OpF2SB // fp.to_sbv RTZ (unspecified out of range); W = width
	OpF2UB
	OpFRTI // fp.roundToIntegral, aux = mode (0 RTZ, 1 RNA, 2 RTP, 3 RTN, 4 RNE)
	OpFSqrt
)

var opSMT = map[Op]string{
	OpAdd: "bvadd", OpSub: "bvsub", OpMul: "bvmul", OpUDiv: "bvudiv", OpSDiv: "bvsdiv", OpURem: "bvurem", OpSRem: "bvsrem",
	OpAnd: "bvand", OpOr: "bvor", OpXor: "bvxor", OpNot: "bvnot", OpNeg: "bvneg", OpShl: "bvshl", OpLShr: "bvlshr", OpAShr: "bvashr",
	OpConcat: "concat", OpIte: "ite", OpBAnd: "and", OpBOr: "or", OpBNot: "not", OpEq: "=", OpULt: "bvult", OpSLt: "bvslt",
	OpULe: "bvule", OpSLe: "bvsle", OpFLt: "fp.lt", OpFLe: "fp.leq", OpFEq: "fp.eq", OpFIsNaN: "fp.isNaN", OpFIsInf: "fp.isInfinite",
	OpFIsNeg: "fp.isNegative", OpFAdd: "fp.add RNE", OpFSub: "fp.sub RNE", OpFMul: "fp.mul RNE", OpFDiv: "fp.div RNE", OpFNeg: "fp.neg", OpFAbs: "fp.abs",
	OpFSqrt: "fp.sqrt RNE",
}

// W: >0 bit-vector width; 0 Bool; -1 Float64.
const (
	SBool = 0
	SFP   = -1
)

type Term struct {
	Op   Op
	W    int
	Args []*Term
	C    uint64  // const BV / Bool (0/1)
	F    float64 // const FP
	Name string
	Aux  int
	Aux2 int
	ID   int
}

func (t *Term) IsConst() bool { return t.Op == OpConst }

// TermTable interns terms for one path.
type TermTable struct {
	m     map[string]*Term
	next  int
	Vars  []*Term
	varBy map[string]*Term
}

func NewTermTable() *TermTable {
	return &TermTable{m: map[string]*Term{}, varBy: map[string]*Term{}}
}

func (tt *TermTable) intern(t *Term) *Term {
	var sb strings.Builder
	sb.WriteString(strconv.Itoa(int(t.Op)))
	sb.WriteByte('/')
	sb.WriteString(strconv.Itoa(t.W))
	switch t.Op {
	case OpVar:
		sb.WriteByte('v')
		sb.WriteString(t.Name)
	case OpConst:
		sb.WriteByte('c')
		if t.W == SFP {
			sb.WriteString(strconv.FormatUint(math.Float64bits(t.F), 16))
		} else {
			sb.WriteString(strconv.FormatUint(t.C, 16))
		}
	default:
		if t.Aux != 0 || t.Aux2 != 0 {
			sb.WriteByte('a')
			sb.WriteString(strconv.Itoa(t.Aux))
			sb.WriteByte(',')
			sb.WriteString(strconv.Itoa(t.Aux2))
		}
		for _, a := range t.Args {
			sb.WriteByte(' ')
			sb.WriteString(strconv.Itoa(a.ID))
		}
	}
	k := sb.String()
	if x, ok := tt.m[k]; ok {
		return x
	}
	tt.next++
	t.ID = tt.next
	tt.m[k] = t
	return t
}

func mask(w int) uint64 {
	if w >= 64 {
		return ^uint64(0)
	}
	return (uint64(1) << uint(w)) - 1
}

// sx sign-extends the w-bit value v to int64.
func sx(v uint64, w int) int64 {
	if w >= 64 {
		return int64(v)
	}
	sh := uint(64 - w)
	return int64(v<<sh) >> sh
}

func (tt *TermTable) Var(name string, w int) *Term {
	if v, ok := tt.varBy[name]; ok {
		if v.W != w {
			panic(fmt.Sprintf("symbolic input %q redeclared with a different sort", name))
		}
		return v
	}
	v := tt.intern(&Term{Op: OpVar, W: w, Name: name})
	tt.varBy[name] = v
	tt.Vars = append(tt.Vars, v)
	return v
}

func (tt *TermTable) BV(v uint64, w int) *Term {
	return tt.intern(&Term{Op: OpConst, W: w, C: v & mask(w)})
}
func (tt *TermTable) Bool(b bool) *Term {
	c := uint64(0)
	if b {
		c = 1
	}
	return tt.intern(&Term{Op: OpConst, W: SBool, C: c})
}
func (tt *TermTable) FP(f float64) *Term {
	return tt.intern(&Term{Op: OpConst, W: SFP, F: f})
}

// FPBits returns the float64 constant with the given IEEE bit pattern.
func (tt *TermTable) FPBits(b uint64) *Term { return tt.FP(math.Float64frombits(b)) }

func isTrue(t *Term) bool  { return t.Op == OpConst && t.W == SBool && t.C == 1 }
func isFalse(t *Term) bool { return t.Op == OpConst && t.W == SBool && t.C == 0 }

func allConst(args ...*Term) bool {
	for _, a := range args {
		if a.Op != OpConst {
			return false
		}
	}
	return true
}

// mk builds a node, folding constants through evalOp.
func (tt *TermTable) mk(op Op, w int, aux, aux2 int, args ...*Term) *Term {
	t := &Term{Op: op, W: w, Args: args, Aux: aux, Aux2: aux2}
	if allConst(args...) {
		c, f := evalNode(t, func(a *Term) (uint64, float64) { return a.C, a.F })
		if w == SFP {
			return tt.FP(f)
		}
		if w == SBool {
			return tt.Bool(c != 0)
		}
		return tt.BV(c, w)
	}
	return tt.intern(t)
}

// ---- BV constructors ------------------------------------------------------------------------

func (tt *TermTable) Bin(op Op, a, b *Term) *Term {
	if a.W != b.W {
		panic(fmt.Sprintf("bv width mismatch %d vs %d in op %d", a.W, b.W, op))
	}
	w := a.W
	switch op {
	case OpAdd:
		if b.IsConst() && b.C == 0 {
			return a
		}
		if a.IsConst() && a.C == 0 {
			return b
		}
	case OpSub:
		if b.IsConst() && b.C == 0 {
			return a
		}
		if a == b {
			return tt.BV(0, w)
		}
	case OpMul:
		if b.IsConst() && b.C == 1 {
			return a
		}
		if a.IsConst() && a.C == 1 {
			return b
		}
		if (b.IsConst() && b.C == 0) || (a.IsConst() && a.C == 0) {
			return tt.BV(0, w)
		}
		if b.IsConst() && b.C == mask(w) {
			return tt.Un(OpNeg, a)
		}
		if a.IsConst() && a.C == mask(w) {
			return tt.Un(OpNeg, b)
		}
	case OpAnd:
		if a == b {
			return a
		}
		if b.IsConst() && b.C == mask(w) {
			return a
		}
		if a.IsConst() && a.C == mask(w) {
			return b
		}
		if (b.IsConst() && b.C == 0) || (a.IsConst() && a.C == 0) {
			return tt.BV(0, w)
		}
	case OpOr:
		if a == b {
			return a
		}
		if b.IsConst() && b.C == 0 {
			return a
		}
		if a.IsConst() && a.C == 0 {
			return b
		}
	case OpXor:
		if a == b {
			return tt.BV(0, w)
		}
		if b.IsConst() && b.C == 0 {
			return a
		}
		if a.IsConst() && a.C == 0 {
			return b
		}
		if b.IsConst() && b.C == mask(w) {
			return tt.Un(OpNot, a)
		}
		if a.IsConst() && a.C == mask(w) {
			return tt.Un(OpNot, b)
		}
	case OpShl, OpLShr, OpAShr:
		if b.IsConst() && b.C == 0 {
			return a
		}
		// a shift by a count saturated at the width equals the shift by the count itself:
		// op(a, ite(K <=u c, K', c)) = op(a, c) for K, K' >= w
		if b.Op == OpIte && b.Args[1].IsConst() && b.Args[1].C >= uint64(w) && b.Args[0].Op == OpULe && b.Args[0].Args[0].IsConst() &&
			b.Args[0].Args[0].C >= uint64(w) && b.Args[0].Args[1] == b.Args[2] {
			return tt.Bin(op, a, b.Args[2])
		}
	}
	// canonical order for commutative ops: constant last, else by ID
	switch op {
	case OpAdd, OpMul, OpAnd, OpOr, OpXor:
		if a.IsConst() || (!b.IsConst() && a.ID > b.ID) {
			a, b = b, a
		}
	}
	return tt.mk(op, w, 0, 0, a, b)
}

func (tt *TermTable) Un(op Op, a *Term) *Term {
	if a.Op == op && (op == OpNot || op == OpNeg) {
		return a.Args[0]
	}
	return tt.mk(op, a.W, 0, 0, a)
}

func (tt *TermTable) Extract(a *Term, hi, lo int) *Term {
	if lo == 0 && hi == a.W-1 {
		return a
	}
	switch a.Op {
	case OpZExt, OpSExt:
		inner := a.Args[0]
		if hi < inner.W {
			return tt.Extract(inner, hi, lo)
		}
		if a.Op == OpZExt && lo >= inner.W {
			return tt.BV(0, hi-lo+1)
		}
		if lo == 0 { // truncation of an extension to something still wider than inner
			if a.Op == OpZExt {
				return tt.ZExt(inner, hi+1-inner.W)
			}
			return tt.SExt(inner, hi+1-inner.W)
		}
	case OpExtract:
		return tt.Extract(a.Args[0], a.Aux2+hi, a.Aux2+lo)
	case OpConcat:
		lw := a.Args[1].W
		if hi < lw {
			return tt.Extract(a.Args[1], hi, lo)
		}
		if lo >= lw {
			return tt.Extract(a.Args[0], hi-lw, lo-lw)
		}
	case OpAdd, OpSub, OpMul, OpAnd, OpOr, OpXor:
		// truncation distributes over ring/bitwise ops when the low bits are kept
		if lo == 0 {
			x, y := a.Args[0], a.Args[1]
			if (x.Op == OpSExt || x.Op == OpZExt || x.IsConst()) && (y.Op == OpSExt || y.Op == OpZExt || y.IsConst()) {
				return tt.Bin(a.Op, tt.Extract(x, hi, 0), tt.Extract(y, hi, 0))
			}
		}
	case OpNeg, OpNot:
		if lo == 0 {
			x := a.Args[0]
			if x.Op == OpSExt || x.Op == OpZExt {
				return tt.Un(a.Op, tt.Extract(x, hi, 0))
			}
		}
	}
	return tt.mk(OpExtract, hi-lo+1, hi, lo, a)
}

func (tt *TermTable) ZExt(a *Term, extra int) *Term {
	if extra == 0 {
		return a
	}
	if a.Op == OpZExt {
		return tt.ZExt(a.Args[0], extra+a.Aux)
	}
	return tt.mk(OpZExt, a.W+extra, extra, 0, a)
}

func (tt *TermTable) SExt(a *Term, extra int) *Term {
	if extra == 0 {
		return a
	}
	if a.Op == OpSExt {
		return tt.SExt(a.Args[0], extra+a.Aux)
	}
	if a.Op == OpZExt { // top bit is 0
		return tt.ZExt(a.Args[0], extra+a.Aux)
	}
	return tt.mk(OpSExt, a.W+extra, extra, 0, a)
}

func (tt *TermTable) Concat(hi, lo *Term) *Term {
	return tt.mk(OpConcat, hi.W+lo.W, 0, 0, hi, lo)
}

// Resize converts a BV to width w, extending by the source's signedness.
func (tt *TermTable) Resize(a *Term, w int, srcSigned bool) *Term {
	switch {
	case a.W == w:
		return a
	case a.W > w:
		return tt.Extract(a, w-1, 0)
	case srcSigned:
		return tt.SExt(a, w-a.W)
	default:
		return tt.ZExt(a, w-a.W)
	}
}

func (tt *TermTable) Ite(c, a, b *Term) *Term {
	if isTrue(c) {
		return a
	}
	if isFalse(c) {
		return b
	}
	if a == b {
		return a
	}
	if a.W == SBool {
		if isTrue(a) && isFalse(b) {
			return c
		}
		if isFalse(a) && isTrue(b) {
			return tt.Not(c)
		}
	}
	return tt.mk(OpIte, a.W, 0, 0, c, a, b)
}

// ---- Bool constructors ----------------------------------------------------------------------

func (tt *TermTable) Not(a *Term) *Term {
	if a.Op == OpBNot {
		return a.Args[0]
	}
	if a.IsConst() {
		return tt.Bool(a.C == 0)
	}
	return tt.mk(OpBNot, SBool, 0, 0, a)
}

func (tt *TermTable) And(a, b *Term) *Term {
	switch {
	case isFalse(a) || isFalse(b):
		return tt.Bool(false)
	case isTrue(a):
		return b
	case isTrue(b):
		return a
	case a == b:
		return a
	}
	return tt.mk(OpBAnd, SBool, 0, 0, a, b)
}

func (tt *TermTable) Or(a, b *Term) *Term {
	switch {
	case isTrue(a) || isTrue(b):
		return tt.Bool(true)
	case isFalse(a):
		return b
	case isFalse(b):
		return a
	case a == b:
		return a
	}
	return tt.mk(OpBOr, SBool, 0, 0, a, b)
}

func (tt *TermTable) Eq(a, b *Term) *Term {
	if a == b && a.W != SFP {
		return tt.Bool(true)
	}
	if a.W != b.W {
		panic(fmt.Sprintf("eq sort mismatch %d %d", a.W, b.W))
	}
	if a.W == SFP {
		return tt.FCmp(OpFEq, a, b)
	}
	if a.W == SBool {
		if b.IsConst() {
			if b.C == 1 {
				return a
			}
			return tt.Not(a)
		}
		if a.IsConst() {
			return tt.Eq(b, a)
		}
	}
	// (ext x) == const out of range / in range
	if a.IsConst() {
		a, b = b, a
	}
	if b.IsConst() && (a.Op == OpZExt || a.Op == OpSExt) {
		inner := a.Args[0]
		var back uint64
		if a.Op == OpZExt {
			back = b.C & mask(inner.W)
		} else {
			back = uint64(sx(b.C&mask(inner.W), inner.W)) & mask(a.W)
		}
		if back != b.C {
			return tt.Bool(false)
		}
		return tt.Eq(inner, tt.BV(b.C, inner.W))
	}
	if (a.Op == OpZExt && b.Op == OpZExt || a.Op == OpSExt && b.Op == OpSExt) && a.Args[0].W == b.Args[0].W {
		return tt.Eq(a.Args[0], b.Args[0])
	}
	if !a.IsConst() && !b.IsConst() && a.ID > b.ID {
		a, b = b, a
	}
	return tt.mk(OpEq, SBool, 0, 0, a, b)
}

func (tt *TermTable) Cmp(op Op, a, b *Term) *Term {
	if a.W != b.W {
		panic("cmp width mismatch")
	}
	if a == b {
		return tt.Bool(op == OpULe || op == OpSLe)
	}
	// K <=u sext(x)  ⇔  K <=u x  and  K <u sext(x) ⇔ K <u x  for 0 < K <= 2^(w0-1) (a negative x is huge either way);
	// likewise through zext for K < 2^w0
	if (op == OpULe || op == OpULt) && a.IsConst() && (b.Op == OpSExt || b.Op == OpZExt) {
		inner := b.Args[0]
		lim := uint64(1) << uint(inner.W-1)
		if b.Op == OpZExt {
			lim = mask(inner.W)
		}
		if a.C > 0 && a.C <= lim {
			return tt.Cmp(op, tt.BV(a.C, inner.W), inner)
		}
	}
	// unsigned upper bounds known from the shape of a: (x & c) <= c, zext(x) < 2^w
	if (op == OpULt || op == OpULe) && b.IsConst() {
		if ub, ok := tt.ubound(a); ok {
			if (op == OpULt && ub < b.C) || (op == OpULe && ub <= b.C) {
				return tt.Bool(true)
			}
		}
	}
	if (op == OpSLt || op == OpSLe) && b.IsConst() && a.W > 1 {
		// signed compare against a non-negative constant when a is known non-negative and bounded
		if ub, ok := tt.ubound(a); ok && ub < (uint64(1)<<uint(a.W-1)) && sx(b.C, a.W) >= 0 {
			if (op == OpSLt && ub < b.C) || (op == OpSLe && ub <= b.C) {
				return tt.Bool(true)
			}
		}
	}
	if (op == OpSLt || op == OpSLe) && a.IsConst() && b.W > 1 && sx(a.C, a.W) <= 0 {
		// c <= b with c <= 0 and b known non-negative
		if ub, ok := tt.ubound(b); ok && ub < (uint64(1)<<uint(b.W-1)) {
			if op == OpSLe || sx(a.C, a.W) < 0 {
				return tt.Bool(true)
			}
		}
	}
	return tt.mk(op, SBool, 0, 0, a, b)
}

// ubound returns an unsigned upper bound implied by the syntactic shape of a.
func (tt *TermTable) ubound(a *Term) (uint64, bool) {
	switch a.Op {
	case OpConst:
		return a.C, true
	case OpAnd:
		for _, x := range a.Args {
			if x.IsConst() {
				return x.C, true
			}
		}
		for _, x := range a.Args {
			if u, ok := tt.ubound(x); ok {
				return u, true
			}
		}
	case OpZExt:
		if u, ok := tt.ubound(a.Args[0]); ok {
			return u, true
		}
		if a.Args[0].W < 64 {
			return mask(a.Args[0].W), true
		}
	case OpIte:
		u1, ok1 := tt.ubound(a.Args[1])
		u2, ok2 := tt.ubound(a.Args[2])
		if ok1 && ok2 {
			if u1 > u2 {
				return u1, true
			}
			return u2, true
		}
	case OpURem:
		if a.Args[1].IsConst() && a.Args[1].C > 0 {
			return a.Args[1].C - 1, true
		}
	case OpLShr:
		if a.Args[1].IsConst() && a.Args[1].C < uint64(a.W) {
			return mask(a.W) >> a.Args[1].C, true
		}
	}
	return 0, false
}

// ---- FP constructors ------------------------------------------------------------------------

func (tt *TermTable) I2F(a *Term, signed bool) *Term {
	// value-preserving normalisation: the float of an extension is the float of the inner value
	for {
		if a.Op == OpSExt && signed {
			a = a.Args[0]
			continue
		}
		if a.Op == OpZExt {
			a, signed = a.Args[0], false
			continue
		}
		break
	}
	aux := 0
	if signed {
		aux = 1
	}
	return tt.mk(OpI2F, SFP, aux, 0, a)
}

// intOf returns, for an I2F term over ≤32 bits, the exact integer value as a 64-bit two's-complement BV.
func (tt *TermTable) intOf(f *Term) (*Term, bool) {
	if f.Op == OpI2F && f.Args[0].W <= 32 {
		return tt.Resize(f.Args[0], 64, f.Aux == 1), true
	}
	if f.Op == OpConst && f.W == SFP && f.F == math.Trunc(f.F) && math.Abs(f.F) < 1<<62 {
		return tt.BV(uint64(int64(f.F)), 64), true
	}
	return nil, false
}

func (tt *TermTable) FCmp(op Op, a, b *Term) *Term {
	if (a.Op == OpI2F || b.Op == OpI2F) && !(a.IsConst() && b.IsConst()) {
		if x, ok := tt.intOf(a); ok {
			if y, ok := tt.intOf(b); ok {
				switch op {
				case OpFEq:
					return tt.Eq(x, y)
				case OpFLt:
					return tt.Cmp(OpSLt, x, y)
				case OpFLe:
					return tt.Cmp(OpSLe, x, y)
				}
			}
		}
	}
	return tt.mk(op, SBool, 0, 0, a, b)
}

func (tt *TermTable) FBin(op Op, a, b *Term) *Term {
	// x * -1 = -1 * x = -x exactly in IEEE arithmetic (NaN stays NaN)
	if op == OpFMul {
		if b.IsConst() && b.F == -1 {
			return tt.FUn(OpFNeg, a)
		}
		if a.IsConst() && a.F == -1 {
			return tt.FUn(OpFNeg, b)
		}
		if b.IsConst() && b.F == 1 {
			return a
		}
		if a.IsConst() && a.F == 1 {
			return b
		}
	}
	return tt.mk(op, SFP, 0, 0, a, b)
}
func (tt *TermTable) FUn(op Op, a *Term) *Term {
	if op == OpFNeg && a.Op == OpFNeg {
		return a.Args[0]
	}
	return tt.mk(op, SFP, 0, 0, a)
}
func (tt *TermTable) FPred(op Op, a *Term) *Term {
	if a.Op == OpI2F {
		switch op {
		case OpFIsNaN, OpFIsInf:
			return tt.Bool(false)
		}
	}
	return tt.mk(op, SBool, 0, 0, a)
}
func (tt *TermTable) FRTI(a *Term, mode int) *Term {
	if a.Op == OpI2F {
		return a
	}
	return tt.mk(OpFRTI, SFP, mode, 0, a)
}

// F2I models Go 1.23/amd64 float64→integer conversion to an n-bit integer.
//
//	int64/int/uint32/uintptr-free kinds: CVTTSD2SQ then truncate; int32/int16/int8/uint8/uint16: CVTTSD2SL then truncate;
//	uint64/uint: CVTTSD2SQ below 2^63, else (f-2^63) converted and the top bit set.
//
// Out-of-range and NaN inputs give the "integer indefinite" value 0x80…0 of the conversion width.
func (tt *TermTable) F2I(f *Term, n int, signed bool) *Term {
	via32 := n < 32 || (n == 32 && signed)
	if v, ok := tt.intOf(f); ok && !(f.Op == OpConst) {
		// exact integer value known as a 64-bit BV
		if via32 {
			in := tt.And(tt.Cmp(OpSLe, tt.BV(uint64(0xffffffff80000000), 64), v), tt.Cmp(OpSLe, v, tt.BV(0x7fffffff, 64)))
			src := f.Args[0]
			if src.W < 32 || (src.W == 32 && f.Aux == 1) {
				in = tt.Bool(true)
			}
			return tt.Ite(in, tt.Extract(v, n-1, 0), tt.Extract(tt.BV(0x80000000, 64), n-1, 0))
		}
		return tt.Extract(v, n-1, 0)
	}
	if f.Op == OpConst {
		return tt.BV(f2iConcrete(f.F, n, signed), n)
	}
	return tt.f2iGeneric(f, n, signed)
}

// f2iGeneric is the un-normalised encoding of the conversion (fp.to_sbv guarded by range checks).
func (tt *TermTable) f2iGeneric(f *Term, n int, signed bool) *Term {
	via32 := n < 32 || (n == 32 && signed)
	nan := tt.mk(OpFIsNaN, SBool, 0, 0, f)
	if via32 {
		// in range iff -2^31-1 < f < 2^31
		in := tt.And(tt.Not(nan), tt.And(tt.mk(OpFLt, SBool, 0, 0, tt.FP(-2147483649.0), f), tt.mk(OpFLt, SBool, 0, 0, f, tt.FP(2147483648.0))))
		conv := tt.mk(OpF2SB, 32, 0, 0, f)
		r := tt.Ite(in, conv, tt.BV(0x80000000, 32))
		return tt.Extract(r, n-1, 0)
	}
	lo, hi := -9223372036854775808.0, 9223372036854775808.0
	in := tt.And(tt.Not(nan), tt.And(tt.mk(OpFLe, SBool, 0, 0, tt.FP(lo), f), tt.mk(OpFLt, SBool, 0, 0, f, tt.FP(hi))))
	conv := tt.mk(OpF2SB, 64, 0, 0, f)
	r := tt.Ite(in, conv, tt.BV(1<<63, 64))
	if n == 64 && !signed {
		// uint64: values in [2^63, 2^64) convert exactly; others as the signed conversion
		big := tt.And(tt.Not(nan), tt.And(tt.mk(OpFLe, SBool, 0, 0, tt.FP(hi), f), tt.mk(OpFLt, SBool, 0, 0, f, tt.FP(18446744073709551616.0))))
		r = tt.Ite(big, tt.mk(OpF2UB, 64, 0, 0, f), r)
	}
	return tt.Extract(r, n-1, 0)
}

// f2iConcrete is the concrete counterpart of F2I (must agree with the native compiler; checked by selftest).
func f2iConcrete(f float64, n int, signed bool) uint64 {
	via32 := n < 32 || (n == 32 && signed)
	if via32 {
		var r uint32 = 0x80000000
		if f == f && f > -2147483649.0 && f < 2147483648.0 {
			r = uint32(int32(f))
		}
		return uint64(r) & mask(n)
	}
	if n == 64 && !signed && f == f && f >= 9223372036854775808.0 && f < 18446744073709551616.0 {
		return uint64(f)
	}
	var r uint64 = 1 << 63
	if f == f && f >= -9223372036854775808.0 && f < 9223372036854775808.0 {
		r = uint64(int64(f))
	}
	return r & mask(n)
}

// ---------------------------------------------------------------------------------------------
// Evaluation (constant folding and model evaluation share evalNode).

func evalNode(t *Term, arg func(*Term) (uint64, float64)) (uint64, float64) {
	var a, b uint64
	var fa, fb float64
	if len(t.Args) > 0 {
		a, fa = arg(t.Args[0])
	}
	if len(t.Args) > 1 {
		b, fb = arg(t.Args[1])
	}
	w := t.W
	bw := 0
	if len(t.Args) > 0 {
		bw = t.Args[0].W
	}
	bo := func(v bool) (uint64, float64) {
		if v {
			return 1, 0
		}
		return 0, 0
	}
	switch t.Op {
	case OpAdd:
		return (a + b) & mask(w), 0
	case OpSub:
		return (a - b) & mask(w), 0
	case OpMul:
		return (a * b) & mask(w), 0
	case OpUDiv:
		if b == 0 {
			return mask(w), 0
		}
		return (a / b) & mask(w), 0
	case OpURem:
		if b == 0 {
			return a, 0
		}
		return (a % b) & mask(w), 0
	case OpSDiv:
		x, y := sx(a, w), sx(b, w)
		if y == 0 {
			if x >= 0 {
				return mask(w), 0
			}
			return 1, 0
		}
		if y == -1 {
			return uint64(-x) & mask(w), 0
		}
		return uint64(x/y) & mask(w), 0
	case OpSRem:
		x, y := sx(a, w), sx(b, w)
		if y == 0 {
			return a, 0
		}
		if y == -1 {
			return 0, 0
		}
		return uint64(x%y) & mask(w), 0
	case OpAnd:
		return a & b, 0
	case OpOr:
		return a | b, 0
	case OpXor:
		return a ^ b, 0
	case OpNot:
		return ^a & mask(w), 0
	case OpNeg:
		return (-a) & mask(w), 0
	case OpShl:
		if b >= uint64(w) {
			return 0, 0
		}
		return (a << b) & mask(w), 0
	case OpLShr:
		if b >= uint64(w) {
			return 0, 0
		}
		return a >> b, 0
	case OpAShr:
		x := sx(a, w)
		if b >= uint64(w) {
			b = uint64(w - 1)
			if w == 64 {
				b = 63
			}
		}
		return uint64(x>>b) & mask(w), 0
	case OpConcat:
		return (a<<uint(t.Args[1].W) | b) & mask(w), 0
	case OpExtract:
		return (a >> uint(t.Aux2)) & mask(w), 0
	case OpZExt:
		return a, 0
	case OpSExt:
		return uint64(sx(a, bw)) & mask(w), 0
	case OpIte:
		c, fc := arg(t.Args[2])
		if a != 0 {
			return b, fb
		}
		return c, fc
	case OpBAnd:
		return bo(a != 0 && b != 0)
	case OpBOr:
		return bo(a != 0 || b != 0)
	case OpBNot:
		return bo(a == 0)
	case OpEq:
		if bw == SFP {
			return bo(fa == fb || (fa != fa && fb != fb)) // SMT '=' on FP is structural; not produced by Eq()
		}
		return bo(a == b)
	case OpULt:
		return bo(a < b)
	case OpULe:
		return bo(a <= b)
	case OpSLt:
		return bo(sx(a, bw) < sx(b, bw))
	case OpSLe:
		return bo(sx(a, bw) <= sx(b, bw))
	case OpFLt:
		return bo(fa < fb)
	case OpFLe:
		return bo(fa <= fb)
	case OpFEq:
		return bo(fa == fb)
	case OpFIsNaN:
		return bo(fa != fa)
	case OpFIsInf:
		return bo(math.IsInf(fa, 0))
	case OpFIsNeg:
		return bo(math.Signbit(fa) && fa == fa)
	case OpFAdd:
		return 0, fa + fb
	case OpFSub:
		return 0, fa - fb
	case OpFMul:
		return 0, fa * fb
	case OpFDiv:
		return 0, fa / fb
	case OpFNeg:
		return 0, -fa
	case OpFAbs:
		return 0, math.Abs(fa)
	case OpFSqrt:
		return 0, math.Sqrt(fa)
	case OpI2F:
		if t.Aux == 1 {
			return 0, float64(sx(a, bw))
		}
		return 0, float64(a)
	case OpF2SB:
		// only meaningful in range; mirror native truncation
		return uint64(int64(fa)) & mask(w), 0
	case OpF2UB:
		return uint64(fa) & mask(w), 0
	case OpFRTI:
		switch t.Aux {
		case 0:
			return 0, math.Trunc(fa)
		case 1:
			return 0, math.Round(fa)
		case 2:
			return 0, math.Ceil(fa)
		case 3:
			return 0, math.Floor(fa)
		default:
			return 0, math.RoundToEven(fa)
		}
	}
	panic(fmt.Sprintf("evalNode: op %d", t.Op))
}

// Model maps input names to values (BV/Bool as uint64, FP as float64 bits).
type Model map[string]uint64

// Eval evaluates t under m (missing inputs are 0).
func Eval(t *Term, m Model) (uint64, float64) {
	memo := map[*Term][2]uint64{}
	var ev func(*Term) (uint64, float64)
	ev = func(x *Term) (uint64, float64) {
		switch x.Op {
		case OpConst:
			return x.C, x.F
		case OpVar:
			if x.W == SFP {
				return 0, math.Float64frombits(m[x.Name])
			}
			return m[x.Name] & maskS(x.W), 0
		}
		if r, ok := memo[x]; ok {
			return r[0], math.Float64frombits(r[1])
		}
		c, f := evalNode(x, ev)
		memo[x] = [2]uint64{c, math.Float64bits(f)}
		return c, f
	}
	return ev(t)
}

func maskS(w int) uint64 {
	if w == SBool {
		return 1
	}
	return mask(w)
}

// ---------------------------------------------------------------------------------------------
// SMT-LIB printing

func sortSMT(w int) string {
	switch w {
	case SBool:
		return "Bool"
	case SFP:
		return "(_ FloatingPoint 11 53)"
	}
	return fmt.Sprintf("(_ BitVec %d)", w)
}

func constSMT(t *Term) string {
	switch t.W {
	case SBool:
		if t.C != 0 {
			return "true"
		}
		return "false"
	case SFP:
		b := math.Float64bits(t.F)
		if t.F != t.F {
			return "(_ NaN 11 53)"
		}
		return fmt.Sprintf("(fp #b%01b #b%011b #b%052b)", b>>63, (b>>52)&0x7ff, b&((1<<52)-1))
	}
	if t.W%4 == 0 {
		return fmt.Sprintf("#x%0*x", t.W/4, t.C)
	}
	return fmt.Sprintf("#b%0*b", t.W, t.C)
}

// nodeSMT prints one node with its arguments referenced by name.
func nodeSMT(t *Term, ref func(*Term) string) string {
	switch t.Op {
	case OpConst:
		return constSMT(t)
	case OpVar:
		return smtName(t.Name)
	case OpExtract:
		return fmt.Sprintf("((_ extract %d %d) %s)", t.Aux, t.Aux2, ref(t.Args[0]))
	case OpZExt:
		return fmt.Sprintf("((_ zero_extend %d) %s)", t.Aux, ref(t.Args[0]))
	case OpSExt:
		return fmt.Sprintf("((_ sign_extend %d) %s)", t.Aux, ref(t.Args[0]))
	case OpI2F:
		if t.Aux == 1 {
			return fmt.Sprintf("((_ to_fp 11 53) RNE %s)", ref(t.Args[0]))
		}
		return fmt.Sprintf("((_ to_fp_unsigned 11 53) RNE %s)", ref(t.Args[0]))
	case OpF2SB:
		return fmt.Sprintf("((_ fp.to_sbv %d) RTZ %s)", t.W, ref(t.Args[0]))
	case OpF2UB:
		return fmt.Sprintf("((_ fp.to_ubv %d) RTZ %s)", t.W, ref(t.Args[0]))
	case OpFRTI:
		return fmt.Sprintf("(fp.roundToIntegral %s %s)", [...]string{"RTZ", "RNA", "RTP", "RTN", "RNE"}[t.Aux], ref(t.Args[0]))
	}
	var sb strings.Builder
	sb.WriteByte('(')
	sb.WriteString(opSMT[t.Op])
	for _, a := range t.Args {
		sb.WriteByte(' ')
		sb.WriteString(ref(a))
	}
	sb.WriteByte(')')
	return sb.String()
}

func smtName(n string) string { return "|in_" + n + "|" }

// String renders a term as a (possibly large) s-expression, for samples and debugging.
func (t *Term) String() string {
	var f func(x *Term, d int) string
	f = func(x *Term, d int) string {
		if d > 12 {
			return "…"
		}
		return nodeSMT(x, func(a *Term) string { return f(a, d+1) })
	}
	return f(t, 0)
}

// parseFPModel parses z3/cvc5 model values for FP: (fp #b0 #b... #b...) | (_ +zero 11 53) | (_ NaN 11 53) ...
func parseFPModel(s string) (uint64, bool) {
	s = strings.TrimSpace(s)
	switch {
	case strings.HasPrefix(s, "(fp "):
		parts := strings.Fields(strings.Trim(s, "()"))
		if len(parts) != 4 {
			return 0, false
		}
		var bits uint64
		for _, p := range parts[1:] {
			v, n, ok := parseBVLit(p)
			if !ok {
				return 0, false
			}
			bits = bits<<uint(n) | v
		}
		return bits, true
	case strings.Contains(s, "+zero"):
		return 0, true
	case strings.Contains(s, "-zero"):
		return 1 << 63, true
	case strings.Contains(s, "NaN"):
		return math.Float64bits(math.NaN()), true
	case strings.Contains(s, "+oo"):
		return math.Float64bits(math.Inf(1)), true
	case strings.Contains(s, "-oo"):
		return math.Float64bits(math.Inf(-1)), true
	}
	return 0, false
}

func parseBVLit(p string) (uint64, int, bool) {
	p = strings.Trim(p, "()")
	switch {
	case strings.HasPrefix(p, "#b"):
		v, err := strconv.ParseUint(p[2:], 2, 64)
		return v, len(p) - 2, err == nil
	case strings.HasPrefix(p, "#x"):
		v, err := strconv.ParseUint(p[2:], 16, 64)
		return v, 4 * (len(p) - 2), err == nil
	case strings.HasPrefix(p, "_ bv"):
		f := strings.Fields(p)
		if len(f) == 3 {
			bi, ok := new(big.Int).SetString(f[1][2:], 10)
			n, err := strconv.Atoi(f[2])
			if ok && err == nil {
				return bi.Uint64(), n, true
			}
		}
	}
	return 0, 0, false
}
