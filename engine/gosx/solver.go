package gosx

import (
	"bufio"
	"fmt"
	"io"
	"os"
	"os/exec"
	"strings"
	"sync/atomic"
	"time"
)

// Verdict of a solver query.
type Verdict int

const (
	Unsat Verdict = iota
	Sat
	Unknown
)

func (v Verdict) String() string { return [...]string{"unsat", "sat", "unknown"}[v] }

// SolverStats are aggregated over all workers.
type SolverStats struct {
	Queries, SatN, UnsatN, UnknownN, Errors int64
	Nanos                                   int64
}

func (s *SolverStats) add(v Verdict, d time.Duration) {
	atomic.AddInt64(&s.Queries, 1)
	atomic.AddInt64(&s.Nanos, int64(d))
	switch v {
	case Sat:
		atomic.AddInt64(&s.SatN, 1)
	case Unsat:
		atomic.AddInt64(&s.UnsatN, 1)
	default:
		atomic.AddInt64(&s.UnknownN, 1)
	}
}

// Solver is one live SMT process spoken to over stdin/stdout.
type Solver struct {
	Kind      string // z3 | z3-new | cvc5
	cmd       *exec.Cmd
	in        io.WriteCloser
	out       *bufio.Reader
	defined   map[int]bool // term ids defined since last reset
	declared  map[string]bool
	stats     *SolverStats
	TimeoutMS int
	Tactic    string
	Log       io.Writer
	dead      bool
}

func NewSolver(kind string, timeoutMS int, stats *SolverStats) (*Solver, error) {
	var cmd *exec.Cmd
	switch kind {
	case "z3", "z3-new":
		cmd = exec.Command(kind, "-in", fmt.Sprintf("-t:%d", timeoutMS))
	case "cvc5":
		cmd = exec.Command("cvc5", "--incremental", "--lang=smt2", fmt.Sprintf("--tlimit-per=%d", timeoutMS), "--fp-exp")
	default:
		return nil, fmt.Errorf("unknown solver %q", kind)
	}
	in, err := cmd.StdinPipe()
	if err != nil {
		return nil, err
	}
	out, err := cmd.StdoutPipe()
	if err != nil {
		return nil, err
	}
	cmd.Stderr = cmd.Stdout
	if err := cmd.Start(); err != nil {
		return nil, err
	}
	s := &Solver{Kind: kind, cmd: cmd, in: in, out: bufio.NewReaderSize(out, 1<<16), stats: stats, TimeoutMS: timeoutMS}
	if p := os.Getenv("GOSX_SMTLOG"); p != "" {
		if f, err := os.Create(fmt.Sprintf("%s.%d", p, cmd.Process.Pid)); err == nil {
			s.Log = f
		}
	}
	s.Reset()
	return s, nil
}

func (s *Solver) Close() {
	if s.cmd != nil && s.cmd.Process != nil {
		s.in.Close()
		s.cmd.Process.Kill()
		s.cmd.Wait()
	}
}

func (s *Solver) send(line string) {
	if s.Log != nil {
		fmt.Fprintln(s.Log, line)
	}
	if _, err := io.WriteString(s.in, line+"\n"); err != nil {
		s.dead = true
	}
}

// Reset clears all assertions and definitions (start of a path).
func (s *Solver) Reset() {
	s.defined = map[int]bool{}
	s.declared = map[string]bool{}
	s.send("(reset)")
	if s.Kind == "cvc5" {
		s.send("(set-logic ALL)")
	}
	s.send("(set-option :produce-models true)")
}

func tname(t *Term) string { return fmt.Sprintf("t%d", t.ID) }

// ref emits definitions for t's DAG (at the current assertion level) and returns a name or literal for t.
func (s *Solver) ref(t *Term) string {
	switch t.Op {
	case OpConst:
		return constSMT(t)
	case OpVar:
		if !s.declared[t.Name] {
			s.declared[t.Name] = true
			s.send(fmt.Sprintf("(declare-const %s %s)", smtName(t.Name), sortSMT(t.W)))
		}
		return smtName(t.Name)
	}
	if s.defined[t.ID] {
		return tname(t)
	}
	// iterative post-order to avoid deep recursion on long chains
	type fr struct {
		t *Term
		i int
	}
	stack := []fr{{t, 0}}
	for len(stack) > 0 {
		top := &stack[len(stack)-1]
		if top.i < len(top.t.Args) {
			a := top.t.Args[top.i]
			top.i++
			if a.Op == OpConst || s.defined[a.ID] {
				continue
			}
			if a.Op == OpVar {
				s.ref(a)
				continue
			}
			stack = append(stack, fr{a, 0})
			continue
		}
		x := top.t
		stack = stack[:len(stack)-1]
		if s.defined[x.ID] {
			continue
		}
		body := nodeSMT(x, func(a *Term) string {
			switch a.Op {
			case OpConst:
				return constSMT(a)
			case OpVar:
				return smtName(a.Name)
			}
			return tname(a)
		})
		s.send(fmt.Sprintf("(define-fun %s () %s %s)", tname(x), sortSMT(x.W), body))
		s.defined[x.ID] = true
	}
	return tname(t)
}

// Assert adds a permanent (until Reset) assertion.
func (s *Solver) Assert(t *Term) {
	s.send(fmt.Sprintf("(assert %s)", s.ref(t)))
}

func (s *Solver) readLine() (string, error) {
	line, err := s.out.ReadString('\n')
	return strings.TrimSpace(line), err
}

// readSexp reads one balanced s-expression (possibly multi-line) from the solver.
func (s *Solver) readSexp() (string, error) {
	var sb strings.Builder
	depth := 0
	started := false
	for {
		line, err := s.out.ReadString('\n')
		if err != nil {
			return sb.String(), err
		}
		inBar := false
		for _, c := range line {
			switch {
			case c == '|':
				inBar = !inBar
			case inBar:
			case c == '(':
				depth++
				started = true
			case c == ')':
				depth--
			}
		}
		sb.WriteString(line)
		if started && depth <= 0 {
			return sb.String(), nil
		}
		if !started && strings.TrimSpace(line) != "" {
			return sb.String(), nil
		}
	}
}

// Check decides satisfiability of (assertions ∧ extra...). With wantModel, a model over vars is returned on sat.
func (s *Solver) Check(extra []*Term, vars []*Term, wantModel bool) (Verdict, Model) {
	if s.dead {
		return Unknown, nil
	}
	t0 := time.Now()
	refs := make([]string, len(extra))
	for i, e := range extra {
		refs[i] = s.ref(e) // definitions go below the push so they persist
	}
	var vrefs []string
	if wantModel {
		for _, v := range vars {
			vrefs = append(vrefs, s.ref(v))
		}
	}
	s.send("(push 1)")
	for _, r := range refs {
		s.send(fmt.Sprintf("(assert %s)", r))
	}
	if s.Tactic != "" {
		s.send("(check-sat-using " + s.Tactic + ")")
	} else {
		s.send("(check-sat)")
	}
	// hard limit: the solver's own per-query timeout is not always honoured (FP↔BV conversions in z3 4.8); a query that
	// overruns it threefold is killed and reported as unknown (the solver process is replaced for the next path)
	watchdog := time.AfterFunc(time.Duration(s.TimeoutMS)*3*time.Millisecond+15*time.Second, func() {
		if s.cmd != nil && s.cmd.Process != nil {
			s.cmd.Process.Kill()
		}
	})
	defer watchdog.Stop()
	v := Unknown
	for {
		line, err := s.readLine()
		if err != nil {
			s.dead = true
			atomic.AddInt64(&s.stats.Errors, 1)
			s.stats.add(Unknown, time.Since(t0))
			return Unknown, nil
		}
		if line == "" {
			continue
		}
		switch {
		case line == "sat":
			v = Sat
		case line == "unsat":
			v = Unsat
		case line == "unknown" || line == "timeout":
			v = Unknown
		default:
			// any other output (notably "(error ...") makes the query inconclusive
			atomic.AddInt64(&s.stats.Errors, 1)
			if s.Log != nil {
				fmt.Fprintln(s.Log, "; solver said:", line)
			}
			lastSolverError.Store(line)
			v = Unknown
			continue
		}
		break
	}
	var m Model
	if v == Sat && wantModel && len(vrefs) > 0 {
		m = Model{}
		s.send("(get-value (" + strings.Join(vrefs, " ") + "))")
		txt, err := s.readSexp()
		if err != nil || strings.Contains(txt, "(error") {
			v = Unknown
			atomic.AddInt64(&s.stats.Errors, 1)
		} else {
			parseGetValue(txt, vars, m)
		}
	}
	s.send("(pop 1)")
	s.stats.add(v, time.Since(t0))
	return v, m
}

var lastSolverError atomic.Value

// LastSolverError returns the last unexpected solver output line, if any.
func LastSolverError() string {
	if v := lastSolverError.Load(); v != nil {
		return v.(string)
	}
	return ""
}

// parseGetValue parses "((|in_a| #x01) (|in_f| (fp ...)))" in order of vars.
func parseGetValue(txt string, vars []*Term, m Model) {
	// tokenise into top-level pairs
	txt = strings.TrimSpace(txt)
	if len(txt) < 2 {
		return
	}
	txt = txt[1 : len(txt)-1]
	depth := 0
	start := -1
	inBar := false
	var pairs []string
	for i, c := range txt {
		switch {
		case c == '|':
			inBar = !inBar
		case inBar:
		case c == '(':
			if depth == 0 {
				start = i
			}
			depth++
		case c == ')':
			depth--
			if depth == 0 && start >= 0 {
				pairs = append(pairs, txt[start+1:i])
				start = -1
			}
		}
	}
	for i, p := range pairs {
		if i >= len(vars) {
			break
		}
		v := vars[i]
		p = strings.TrimSpace(p)
		// strip the name
		var rest string
		if strings.HasPrefix(p, "|") {
			j := strings.Index(p[1:], "|")
			rest = strings.TrimSpace(p[j+2:])
		} else {
			j := strings.IndexAny(p, " \t\n")
			rest = strings.TrimSpace(p[j+1:])
		}
		switch v.W {
		case SBool:
			if rest == "true" {
				m[v.Name] = 1
			} else {
				m[v.Name] = 0
			}
		case SFP:
			if b, ok := parseFPModel(rest); ok {
				m[v.Name] = b
			}
		default:
			if val, _, ok := parseBVLit(rest); ok {
				m[v.Name] = val
			}
		}
	}
}
