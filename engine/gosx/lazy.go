package gosx

import (
	"encoding/json"
	"fmt"
	"go/types"
	"sort"
	"strings"

	"golang.org/x/tools/go/ssa"
)

// lazyStr is a string drawn from a finite set, concretised (with a fork per alternative) at its first use.
type lazyStr struct {
	name string
	alts func(ex *Exec) []string
	val  *string
}

func (ex *Exec) forceLazy(l *lazyStr) string {
	if l.val != nil {
		return *l.val
	}
	alts := l.alts(ex)
	var s string
	if len(alts) == 1 {
		s = alts[0]
	} else {
		t := ex.Input(l.name, 64)
		ex.Assume(ex.tt.Cmp(OpULt, t, ex.tt.BV(uint64(len(alts)), 64)))
		old := ex.eng.MaxConcretize
		i := ex.concretizeN(t, len(alts), "token choice "+l.name)
		_ = old
		s = alts[i]
	}
	l.val = &s
	ex.lazyForced = append(ex.lazyForced, l.name+"="+s)
	return s
}

// concretizeN is concretize without the global MaxConcretize cap (finite alphabets may be larger).
func (ex *Exec) concretizeN(t *Term, n int, why string) uint64 {
	save := ex.eng.MaxConcretize
	if n > save {
		ex.concCap = n
	}
	v := ex.concretize(t, n, why)
	ex.concCap = 0
	return v
}

// TokenSpec describes a symbolic token sequence handed to the parser instead of scanner output.
type TokenSpec struct {
	Prefix   []string // concrete tokens before the holes (each "sym" or "sym\x1ftext")
	Holes    int      // number of symbolic tokens
	Suffix   []string
	Alphabet string // "full" | "rep"
	Lines    bool   // every token on its own line (else all on line 1)
}

const TokenMarker = "\x00SYMTOKENS\x00"

func EncodeTokenSpec(s TokenSpec) string {
	b, _ := json.Marshal(s)
	return TokenMarker + string(b)
}

// symbolAlphabet reads the real symbols table of the package under test (after init) and adds scanner symbols missing from it.
func (ex *Exec) symbolAlphabet(kind string) []string {
	if a, ok := ex.User["alphabet:"+kind].([]string); ok {
		return a
	}
	g := ex.eng.Pkg.Var("symbols")
	m := (*ex.global(g)).(*mapV)
	type cls struct{ key string }
	var full []string
	classes := map[string][]string{}
	st := ex.eng.Pkg.Type("symbol").Type().Underlying().(*types.Struct)
	iL, iN, iD := fieldIndex(st, "Lbp"), fieldIndex(st, "Nud"), fieldIndex(st, "Led")
	for _, e := range m.live() {
		k := e.k.(string)
		full = append(full, k)
		sv := (*e.v.(*value)).(structure)
		fn := func(v value) string {
			switch f := v.(type) {
			case *ssa.Function:
				if f == nil {
					return "nil"
				}
				return f.Name()
			case *closure:
				return f.Fn.Name()
			}
			return "?"
		}
		key := fmt.Sprintf("%v/%s/%s", sv[iL], fn(sv[iN]), fn(sv[iD]))
		classes[key] = append(classes[key], k)
	}
	extras := []string{"#", "?", "..", "@", "~", "\\", "`"}
	full = append(full, extras...)
	sort.Strings(full)
	var rep []string
	for _, ks := range classes {
		sort.Strings(ks)
		rep = append(rep, ks[0])
		if len(ks) > 3 {
			rep = append(rep, ks[len(ks)-1])
		}
	}
	rep = append(rep, "#")
	sort.Strings(rep)
	ex.User["alphabet:full"], ex.User["alphabet:rep"] = full, rep
	if kind == "rep" {
		return rep
	}
	return full
}

func textAlternatives(sym string) []string {
	switch sym {
	case "(name)":
		return []string{"a", "f", "_", "main", "fmt"}
	case "(int)":
		return []string{"0", "7", "0x1F", "08", "99999999999999999999"}
	case "(float)":
		return []string{"1.5", "1e999"}
	case "(string)":
		return []string{`"s"`, `"fmt"`, "`raw`", `"\ud800"`}
	case "(char)":
		return []string{`'a'`, `'\n'`, `'\ud800'`}
	}
	return []string{sym}
}

// symbolicTokens builds the token list for a spec.
func (ex *Exec) symbolicTokens(fname string, spec TokenSpec) value {
	tokT := ex.eng.Pkg.Type("token").Type()
	st := tokT.Underlying().(*types.Struct)
	iPos, iSym, iText, iToks := fieldIndex(st, "Pos"), fieldIndex(st, "Symbol"), fieldIndex(st, "Text"), fieldIndex(st, "Tokens")
	pst := st.Field(iPos).Type().Underlying().(*types.Struct)
	iF, iO, iL, iC := fieldIndex(pst, "Filename"), fieldIndex(pst, "Offset"), fieldIndex(pst, "Line"), fieldIndex(pst, "Column")
	var vals []value
	n := 0
	mk := func(sym, text value) {
		pos := make(structure, pst.NumFields())
		line, col := 1, n*3+1
		if spec.Lines {
			line, col = n+1, 1
		}
		pos[iF], pos[iO], pos[iL], pos[iC] = fname, uint64(n*3), uint64(line), uint64(col)
		s := make(structure, st.NumFields())
		for k := range s {
			s[k] = zero(st.Field(k).Type())
		}
		s[iPos], s[iSym], s[iText], s[iToks] = pos, sym, text, (*sliceV)(nil)
		cell := new(value)
		*cell = s
		vals = append(vals, cell)
		n++
	}
	conc := func(t string) {
		sym, text := t, t
		if i := strings.IndexByte(t, '\x1f'); i >= 0 {
			sym, text = t[:i], t[i+1:]
		}
		mk(sym, text)
	}
	for _, t := range spec.Prefix {
		conc(t)
	}
	for h := 0; h < spec.Holes; h++ {
		h := h
		symL := &lazyStr{name: fmt.Sprintf("tok%d", h), alts: func(ex *Exec) []string { return ex.symbolAlphabet(spec.Alphabet) }}
		textL := &lazyStr{name: fmt.Sprintf("txt%d", h), alts: func(ex *Exec) []string { return textAlternatives(ex.forceLazy(symL)) }}
		mk(symL, textL)
	}
	for _, t := range spec.Suffix {
		conc(t)
	}
	mk("(eof)", "(eof)")
	return newSliceOf(vals)
}
