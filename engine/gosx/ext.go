package gosx

import (
	"fmt"
	"go/token"
	"go/types"
	"math"
	"math/bits"
	"path/filepath"
	"sort"
	"strconv"
	"strings"

	"golang.org/x/tools/go/ssa"
)

// engErr is the engine's error value (errors.New, fmt.Errorf, run-time errors, os.ErrNotExist ...).
type engErr struct {
	msg     value // string | *SymStr
	wrapped value // iface or nil
	runtime bool
}

func (ex *Exec) errValue(e *engErr) value { return iface{t: ex.eng.rtPlainError, v: e} }

func (ex *Exec) newErr(msg string) value { return ex.errValue(&engErr{msg: msg}) }

func (e *engErr) text() value {
	if e.runtime {
		return concatStr("runtime error: ", e.msg)
	}
	return e.msg
}

// setupErrTypes synthesises the named type used for engine errors.
func (e *Engine) setupErrTypes() {
	pkg := types.NewPackage("gosx/rt", "rt")
	mk := func(name string) types.Type {
		tn := types.NewTypeName(token.NoPos, pkg, name, nil)
		named := types.NewNamed(tn, types.NewStruct(nil, nil), nil)
		recv := types.NewVar(token.NoPos, pkg, "e", types.NewPointer(named))
		sig := types.NewSignatureType(recv, nil, nil, nil, types.NewTuple(types.NewVar(token.NoPos, pkg, "", types.Typ[types.String])), false)
		named.AddMethod(types.NewFunc(token.NoPos, pkg, "Error", sig))
		return types.NewPointer(named)
	}
	e.rtPlainError = mk("Error")
	e.rtErrorString = e.rtPlainError
}

func (ex *Exec) panicToErr(v value) *engErr {
	switch v := v.(type) {
	case runtimeError:
		return &engErr{msg: string(v), runtime: true}
	case typeAssertError:
		return &engErr{msg: string(v)}
	case plainError:
		return &engErr{msg: string(v)}
	}
	return nil
}

// ---------------------------------------------------------------------------------------------

func (e *Engine) external(fn *ssa.Function, name string) extFn {
	e.extMu.Lock()
	f, ok := e.externals[name]
	e.extMu.Unlock()
	if ok {
		return f
	}
	// package initialisers of dependencies are not run (their globals are modelled lazily)
	if fn.Name() == "init" && fn.Pkg != nil && fn.Synthetic != "" && !e.initAllowed(fn.Pkg) {
		return func(fr *frame, args []value) value { return nil }
	}
	return nil
}

var knownGlobals = map[string]bool{"os.ErrNotExist": true, "os.Stdout": true, "os.Stderr": true, "os.Args": true, "io.EOF": true}

func (e *Engine) initAllowed(p *ssa.Package) bool {
	path := p.Pkg.Path()
	if p == e.Pkg || strings.HasPrefix(path, "golang.org/x/exp/") || path == "unicode/utf8" || path == "math/bits" {
		return true
	}
	if e.RefProg != nil && p.Prog == e.RefProg {
		return strings.HasPrefix(path, "verifref/")
	}
	return false
}

func (ex *Exec) ensureInit(p *ssa.Package) {
	if p == nil || ex.inited[p] || !ex.eng.initAllowed(p) {
		return
	}
	ex.inited[p] = true
	if f := p.Func("init"); f != nil {
		ex.call(nil, 0, f, nil)
	}
}

// InitPackage runs the package initialiser (once per path).
func (ex *Exec) InitPackage(p *ssa.Package) { ex.ensureInit(p) }

func (ex *Exec) initialGlobal(g *ssa.Global) value {
	name := g.String()
	switch name {
	case "os.ErrNotExist":
		return ex.errNotExist()
	case "os.Stdout", "os.Stderr":
		cell := new(value)
		*cell = structure{}
		return cell
	case "os.Args":
		return newSliceOf([]value{"goat"})
	case "io.EOF":
		if v, ok := ex.User["io.EOF"]; ok {
			return v
		}
		v := ex.newErr("EOF")
		ex.User["io.EOF"] = v
		return v
	}
	return zero(deref(g.Type()))
}

func (ex *Exec) errNotExist() value {
	if v, ok := ex.User["os.ErrNotExist"]; ok {
		return v
	}
	v := ex.newErr("file does not exist")
	ex.User["os.ErrNotExist"] = v
	return v
}

func unsupported(msg string) { panic(pathEnd{kind: endUnsupported, msg: msg}) }

func str(v value, what string) string {
	s, ok := v.(string)
	if !ok {
		unsupported(what + " on a symbolic string")
	}
	return s
}

func (fr *frame) sint(v value, t types.Type, what string) int64 {
	c, ok := v.(uint64)
	if !ok {
		unsupported(what + " on a symbolic integer")
	}
	if t == nil {
		return sx(c, fr.sz.bits(types.Typ[types.Int]))
	}
	if isSigned(t) {
		return sx(c, fr.sz.bits(t))
	}
	return int64(c)
}

func (fr *frame) mkInt(i int64) value { return uint64(i) & mask(fr.sz.bits(types.Typ[types.Int])) }

func flt(v value, what string) (float64, *Term) {
	switch v := v.(type) {
	case float64:
		return v, nil
	case *Term:
		return 0, v
	}
	panic(fmt.Sprintf("%s: not a float: %T", what, v))
}

func (e *Engine) Register(name string, f extFn) {
	e.extMu.Lock()
	if e.externals == nil {
		e.externals = map[string]extFn{}
	}
	e.externals[name] = f
	e.extMu.Unlock()
}

func (ex *Exec) used(name string) { ex.extUsed[name]++ }

func strSlice(v value, what string) []value {
	s := v.(*sliceV)
	n := sliceLen(s)
	r := make([]value, n)
	for i := 0; i < n; i++ {
		r[i] = *s.at(i)
	}
	return r
}

func (e *Engine) registerStd() {
	intT := types.Typ[types.Int]
	nativeErr := func(fr *frame, err error) value {
		if err == nil {
			return iface{}
		}
		return fr.ex.newErr(err.Error())
	}
	// ---- fmt
	e.Register("fmt.Sprint", func(fr *frame, a []value) value { return fr.ex.sprint(fr, strSlice(a[0], ""), false) })
	e.Register("fmt.Sprintln", func(fr *frame, a []value) value { return fr.ex.sprint(fr, strSlice(a[0], ""), true) })
	e.Register("fmt.Sprintf", func(fr *frame, a []value) value { return fr.ex.sprintf(fr, a[0], strSlice(a[1], ""), nil) })
	e.Register("fmt.Errorf", func(fr *frame, a []value) value {
		var wrapped value
		msg := fr.ex.sprintf(fr, a[0], strSlice(a[1], ""), &wrapped)
		return fr.ex.errValue(&engErr{msg: msg, wrapped: wrapped})
	})
	write := func(fr *frame, w value, s value) value {
		fr.ex.writeTo(fr, w, s)
		return tuple{uint64(0), iface{}}
	}
	e.Register("fmt.Fprint", func(fr *frame, a []value) value { return write(fr, a[0], fr.ex.sprint(fr, strSlice(a[1], ""), false)) })
	e.Register("fmt.Fprintln", func(fr *frame, a []value) value { return write(fr, a[0], fr.ex.sprint(fr, strSlice(a[1], ""), true)) })
	e.Register("fmt.Fprintf", func(fr *frame, a []value) value {
		return write(fr, a[0], fr.ex.sprintf(fr, a[1], strSlice(a[2], ""), nil))
	})
	stdout := func(fr *frame, s value) value {
		fr.ex.emit(fr, strSegs(s))
		return tuple{uint64(0), iface{}}
	}
	e.Register("fmt.Print", func(fr *frame, a []value) value { return stdout(fr, fr.ex.sprint(fr, strSlice(a[0], ""), false)) })
	e.Register("fmt.Println", func(fr *frame, a []value) value { return stdout(fr, fr.ex.sprint(fr, strSlice(a[0], ""), true)) })
	e.Register("fmt.Printf", func(fr *frame, a []value) value { return stdout(fr, fr.ex.sprintf(fr, a[0], strSlice(a[1], ""), nil)) })

	// ---- errors
	e.Register("errors.New", func(fr *frame, a []value) value { return fr.ex.errValue(&engErr{msg: a[0]}) })
	e.Register("errors.Is", func(fr *frame, a []value) value {
		err, target := a[0].(iface), a[1].(iface)
		for err.t != nil {
			if eq, _ := fr.equals(types.Universe.Lookup("error").Type(), err, target).(bool); eq {
				return true
			}
			ee, ok := err.v.(*engErr)
			if !ok || ee.wrapped == nil {
				return false
			}
			err = ee.wrapped.(iface)
		}
		return target.t == nil
	})
	e.Register("errors.Unwrap", func(fr *frame, a []value) value {
		if ee, ok := a[0].(iface).v.(*engErr); ok && ee.wrapped != nil {
			return ee.wrapped
		}
		return iface{}
	})

	// ---- strconv
	e.Register("strconv.Itoa", func(fr *frame, a []value) value {
		if t, ok := a[0].(*Term); ok {
			return mkStr([]Seg{{K: segDec, T: fr.ex.tt.Resize(t, 64, true)}})
		}
		return strconv.FormatInt(fr.sint(a[0], intT, "Itoa"), 10)
	})
	e.Register("strconv.Atoi", func(fr *frame, a []value) value {
		v, err := strconv.Atoi(str(a[0], "strconv.Atoi"))
		if err == nil && fr.sz.bits(intT) == 32 && (v > math.MaxInt32 || v < math.MinInt32) {
			_, err = strconv.ParseInt(str(a[0], ""), 10, 32)
		}
		return tuple{fr.mkInt(int64(v)), nativeErr(fr, err)}
	})
	e.Register("strconv.ParseInt", func(fr *frame, a []value) value {
		bs := int(fr.sint(a[2], intT, "ParseInt"))
		if bs == 0 {
			bs = fr.sz.bits(intT)
		}
		v, err := strconv.ParseInt(str(a[0], "strconv.ParseInt"), int(fr.sint(a[1], intT, "ParseInt")), bs)
		return tuple{uint64(v), nativeErr(fr, err)}
	})
	e.Register("strconv.ParseFloat", func(fr *frame, a []value) value {
		v, err := strconv.ParseFloat(str(a[0], "strconv.ParseFloat"), int(fr.sint(a[1], intT, "ParseFloat")))
		return tuple{v, nativeErr(fr, err)}
	})
	e.Register("strconv.FormatInt", func(fr *frame, a []value) value {
		base := fr.sint(a[1], intT, "FormatInt base")
		if t, ok := a[0].(*Term); ok {
			if base != 10 {
				unsupported("FormatInt of a symbolic integer in base != 10")
			}
			return mkStr([]Seg{{K: segDec, T: t}})
		}
		return strconv.FormatInt(int64(a[0].(uint64)), int(base))
	})
	e.Register("strconv.FormatFloat", func(fr *frame, a []value) value {
		f, sym := flt(a[0], "FormatFloat")
		if sym != nil {
			unsupported("FormatFloat of a symbolic float")
		}
		return strconv.FormatFloat(f, byte(a[1].(uint64)), int(fr.sint(a[2], intT, "")), int(fr.sint(a[3], intT, "")))
	})
	e.Register("strconv.Unquote", func(fr *frame, a []value) value {
		v, err := strconv.Unquote(str(a[0], "strconv.Unquote"))
		return tuple{v, nativeErr(fr, err)}
	})
	e.Register("strconv.Quote", func(fr *frame, a []value) value { return strconv.Quote(str(a[0], "strconv.Quote")) })
	e.Register("strconv.UnquoteChar", func(fr *frame, a []value) value {
		r, mb, tail, err := strconv.UnquoteChar(str(a[0], "strconv.UnquoteChar"), byte(a[1].(uint64)))
		return tuple{uint64(uint32(r)), mb, tail, nativeErr(fr, err)}
	})

	// ---- strings
	e.Register("strings.Join", func(fr *frame, a []value) value {
		elems := strSlice(a[0], "")
		var segs []Seg
		for i, s := range elems {
			if i > 0 {
				segs = append(segs, strSegs(a[1])...)
			}
			segs = append(segs, strSegs(s)...)
		}
		return mkStr(segs)
	})
	strs := func(vals []string) value {
		r := make([]value, len(vals))
		for i, s := range vals {
			r[i] = s
		}
		return newSliceOf(r)
	}
	e.Register("strings.Split", func(fr *frame, a []value) value {
		return strs(strings.Split(str(a[0], "strings.Split"), str(a[1], "strings.Split")))
	})
	e.Register("strings.Fields", func(fr *frame, a []value) value { return strs(strings.Fields(str(a[0], "strings.Fields"))) })
	s2b := func(name string, f func(a, b string) bool) {
		e.Register(name, func(fr *frame, a []value) value { return f(str(a[0], name), str(a[1], name)) })
	}
	s2b("strings.HasSuffix", strings.HasSuffix)
	s2b("strings.HasPrefix", strings.HasPrefix)
	s2b("strings.Contains", strings.Contains)
	s2b("strings.EqualFold", strings.EqualFold)
	s2s := func(name string, f func(a, b string) string) {
		e.Register(name, func(fr *frame, a []value) value { return f(str(a[0], name), str(a[1], name)) })
	}
	s2s("strings.TrimRight", strings.TrimRight)
	s2s("strings.TrimLeft", strings.TrimLeft)
	s2s("strings.Trim", strings.Trim)
	s2s("strings.TrimSuffix", strings.TrimSuffix)
	s2s("strings.TrimPrefix", strings.TrimPrefix)
	s1s := func(name string, f func(a string) string) {
		e.Register(name, func(fr *frame, a []value) value { return f(str(a[0], name)) })
	}
	s1s("strings.TrimSpace", strings.TrimSpace)
	s1s("strings.ToLower", strings.ToLower)
	s1s("strings.ToUpper", strings.ToUpper)
	e.Register("strings.ContainsRune", func(fr *frame, a []value) value {
		r, ok := a[1].(uint64)
		if !ok {
			unsupported("strings.ContainsRune on a symbolic rune")
		}
		return strings.ContainsRune(str(a[0], "ContainsRune"), rune(int32(r)))
	})
	e.Register("strings.Index", func(fr *frame, a []value) value {
		return fr.mkInt(int64(strings.Index(str(a[0], "Index"), str(a[1], "Index"))))
	})
	e.Register("strings.Repeat", func(fr *frame, a []value) value {
		n := fr.sint(a[1], intT, "strings.Repeat")
		if n < 0 {
			panic(targetPanic{v: plainError("strings: negative Repeat count")})
		}
		s := str(a[0], "strings.Repeat")
		if int64(len(s))*n > int64(fr.ex.eng.MaxAlloc)*64 {
			panic(pathEnd{kind: endUnwind, msg: "strings.Repeat result exceeds the allocation bound"})
		}
		return strings.Repeat(s, int(n))
	})
	e.Register("strings.Replace", func(fr *frame, a []value) value {
		return strings.Replace(str(a[0], "Replace"), str(a[1], "Replace"), str(a[2], "Replace"), int(fr.sint(a[3], intT, "Replace")))
	})
	e.Register("strings.ReplaceAll", func(fr *frame, a []value) value {
		return strings.ReplaceAll(str(a[0], "ReplaceAll"), str(a[1], "ReplaceAll"), str(a[2], "ReplaceAll"))
	})
	e.Register("path/filepath.Clean", func(fr *frame, a []value) value { return filepath.Clean(str(a[0], "filepath.Clean")) })

	// ---- math
	m1 := func(name string, f func(float64) float64, sym func(tt *TermTable, t *Term) *Term) {
		e.Register("math."+name, func(fr *frame, a []value) value {
			c, t := flt(a[0], name)
			if t != nil {
				if sym == nil {
					unsupported("math." + name + " of a symbolic float")
				}
				return sym(fr.ex.tt, t)
			}
			return f(c)
		})
	}
	m1("Abs", math.Abs, func(tt *TermTable, t *Term) *Term { return tt.FUn(OpFAbs, t) })
	m1("Sqrt", math.Sqrt, func(tt *TermTable, t *Term) *Term { return tt.FUn(OpFSqrt, t) })
	m1("Floor", math.Floor, func(tt *TermTable, t *Term) *Term { return tt.FRTI(t, 3) })
	m1("Ceil", math.Ceil, func(tt *TermTable, t *Term) *Term { return tt.FRTI(t, 2) })
	m1("Trunc", math.Trunc, func(tt *TermTable, t *Term) *Term { return tt.FRTI(t, 0) })
	m1("Round", math.Round, func(tt *TermTable, t *Term) *Term { return tt.FRTI(t, 1) })
	m1("RoundToEven", math.RoundToEven, func(tt *TermTable, t *Term) *Term { return tt.FRTI(t, 4) })
	for n, f := range map[string]func(float64) float64{"Atan": math.Atan, "Cos": math.Cos, "Sin": math.Sin, "Tan": math.Tan, "Log": math.Log, "Exp": math.Exp, "Log2": math.Log2, "Log10": math.Log10, "Asin": math.Asin, "Acos": math.Acos} {
		m1(n, f, nil)
	}
	m2 := func(name string, f func(a, b float64) float64) {
		e.Register("math."+name, func(fr *frame, a []value) value {
			x, tx := flt(a[0], name)
			y, ty := flt(a[1], name)
			if tx != nil || ty != nil {
				unsupported("math." + name + " of symbolic floats")
			}
			return f(x, y)
		})
	}
	m2("Atan2", math.Atan2)
	m2("Hypot", math.Hypot)
	m2("Max", math.Max)
	m2("Min", math.Min)
	m2("Mod", math.Mod)
	m2("Pow", math.Pow)
	e.Register("math.Signbit", func(fr *frame, a []value) value {
		c, t := flt(a[0], "Signbit")
		if t != nil {
			tt := fr.ex.tt
			// Signbit(NaN) depends on the payload sign, which the FP theory does not expose: assume non-NaN
			fr.ex.Assume(tt.Not(tt.FPred(OpFIsNaN, t)))
			return tt.FPred(OpFIsNeg, t)
		}
		return math.Signbit(c)
	})
	e.Register("math.IsNaN", func(fr *frame, a []value) value {
		c, t := flt(a[0], "IsNaN")
		if t != nil {
			return fr.ex.tt.FPred(OpFIsNaN, t)
		}
		return c != c
	})
	e.Register("math.IsInf", func(fr *frame, a []value) value {
		c, t := flt(a[0], "IsInf")
		if t != nil {
			unsupported("math.IsInf of a symbolic float")
		}
		return math.IsInf(c, int(fr.sint(a[1], intT, "")))
	})
	e.Register("math.Inf", func(fr *frame, a []value) value { return math.Inf(int(fr.sint(a[0], intT, ""))) })
	e.Register("math.NaN", func(fr *frame, a []value) value { return math.NaN() })
	e.Register("math.Float64bits", func(fr *frame, a []value) value {
		c, t := flt(a[0], "Float64bits")
		if t != nil {
			unsupported("math.Float64bits of a symbolic float")
		}
		return math.Float64bits(c)
	})
	e.Register("math.Float64frombits", func(fr *frame, a []value) value {
		c, ok := a[0].(uint64)
		if !ok {
			unsupported("math.Float64frombits of a symbolic integer")
		}
		return math.Float64frombits(c)
	})
	e.Register("math/bits.Len", func(fr *frame, a []value) value { return fr.mkInt(int64(bits.Len(uint(a[0].(uint64))))) })
	e.Register("math/bits.Len64", func(fr *frame, a []value) value { return fr.mkInt(int64(bits.Len64(a[0].(uint64)))) })
	e.Register("math/bits.Len32", func(fr *frame, a []value) value { return fr.mkInt(int64(bits.Len32(uint32(a[0].(uint64))))) })
	e.Register("math/bits.TrailingZeros64", func(fr *frame, a []value) value { return fr.mkInt(int64(bits.TrailingZeros64(a[0].(uint64)))) })

	// ---- sort
	stable := func(fr *frame, a []value) value {
		s := a[0].(iface).v.(*sliceV)
		less := a[1]
		n := sliceLen(s)
		for i := 1; i < n; i++ {
			for j := i; j > 0; j-- {
				r := fr.ex.call(fr, 0, less, []value{fr.mkInt(int64(j)), fr.mkInt(int64(j - 1))})
				lt := false
				switch r := r.(type) {
				case bool:
					lt = r
				case *Term:
					lt = fr.ex.branch(r, "sort less")
				}
				if !lt {
					break
				}
				x, y := s.at(j), s.at(j-1)
				*x, *y = *y, *x
			}
		}
		return nil
	}
	e.Register("sort.SliceStable", stable)
	e.Register("sort.Slice", stable)
	e.Register("sort.Strings", func(fr *frame, a []value) value {
		s := a[0].(*sliceV)
		n := sliceLen(s)
		vals := make([]string, n)
		for i := range vals {
			vals[i] = str(*s.at(i), "sort.Strings")
		}
		sort.Strings(vals)
		for i := range vals {
			*s.at(i) = vals[i]
		}
		return nil
	})

	// ---- things no generated program may depend on
	for _, n := range []string{"time.Now", "time.Sleep", "math/rand.Float64", "math/rand.Int", "math/rand.Intn", "math/rand.Int31", "math/rand.Int31n", "math/rand.Uint32", "math/rand.Seed", "os.ReadFile", "os.WriteFile"} {
		n := n
		e.Register(n, func(fr *frame, a []value) value {
			unsupported("environment function " + n + " (arbitrary by contract; not used by generated programs)")
			return nil
		})
	}
}

// writeTo implements fmt.Fprint*'s write to an io.Writer.
func (ex *Exec) writeTo(fr *frame, w value, s value) {
	wi := w.(iface)
	if wi.t == nil {
		rtPanic("invalid memory address or nil pointer dereference")
	}
	name := wi.t.String()
	if strings.HasSuffix(name, ".verifRecorder") {
		ex.OutGoat = append(ex.OutGoat, strSegs(s)...)
		if _, concrete := s.(string); !concrete {
			return
		}
		// concrete text also goes through the recorder's real Write so that harnesses can read it back
	}
	if name == "*os.File" {
		ex.emit(fr, strSegs(s))
		return
	}
	// generic writer: call Write([]byte)
	wm := ex.eng.Prog.LookupMethod(wi.t, nil, "Write")
	if wm == nil {
		unsupported("io.Writer of type " + name)
	}
	b := fr.conv(types.NewSlice(types.Typ[types.Byte]), types.Typ[types.String], s)
	ex.call(fr, 0, wm, []value{wi.v, b})
}

// ---------------------------------------------------------------------------------------------
// fmt model

// stringer returns the String()/Error() rendering of v if its dynamic type has one.
func (ex *Exec) stringer(fr *frame, t types.Type, v value) (value, bool) {
	if t == ex.eng.rtPlainError {
		return v.(*engErr).text(), true
	}
	for _, mname := range []string{"Error", "String"} {
		ms := ex.eng.methodSet(t)
		var sel *types.Selection
		for i := 0; i < ms.Len(); i++ {
			if ms.At(i).Obj().Name() == mname {
				sel = ms.At(i)
				break
			}
		}
		if sel == nil {
			continue
		}
		sig := sel.Type().(*types.Signature)
		if sig.Params().Len() != 0 || sig.Results().Len() != 1 || !isString(sig.Results().At(0).Type()) {
			continue
		}
		fn := ex.eng.lookupMethod(t, sel.Obj().(*types.Func))
		if fn == nil {
			continue
		}
		// a nil pointer receiver with a value method panics inside fmt (which prints <nil>); keep simple
		if p, ok := v.(*value); ok && p == nil {
			return "<nil>", true
		}
		return ex.call(fr, 0, fn, []value{v}), true
	}
	return nil, false
}

// fmtV renders v of (dynamic or static) type t as fmt's %v does.
func (ex *Exec) fmtV(fr *frame, t types.Type, v value, depth int) []Seg {
	lit := func(s string) []Seg { return []Seg{{K: segLit, S: s}} }
	if it, ok := v.(iface); ok {
		if it.t == nil {
			return lit("<nil>")
		}
		return ex.fmtV(fr, it.t, it.v, depth)
	}
	if s, ok := ex.stringer(fr, t, v); ok {
		return strSegs(s)
	}
	switch v := v.(type) {
	case bool:
		return lit(strconv.FormatBool(v))
	case string:
		return lit(v)
	case *SymStr:
		return v.Segs
	case uint64:
		if isSigned(t) {
			return lit(strconv.FormatInt(sx(v, fr.sz.bits(t)), 10))
		}
		return lit(strconv.FormatUint(v, 10))
	case float64:
		if isFloat32(t) {
			return lit(fmt.Sprint(float32(v)))
		}
		return lit(fmt.Sprint(v))
	case *Term:
		switch {
		case v.W == SBool:
			return []Seg{{K: segBool, T: v}}
		case v.W == SFP:
			return []Seg{{K: segFlt, T: v}}
		case isSigned(t):
			return []Seg{{K: segDec, T: ex.tt.Resize(v, 64, true)}}
		default:
			return []Seg{{K: segUDec, T: ex.tt.Resize(v, 64, false)}}
		}
	case *sliceV:
		et := t.Underlying().(*types.Slice).Elem()
		segs := lit("[")
		for i := 0; i < sliceLen(v); i++ {
			if i > 0 {
				segs = append(segs, Seg{K: segLit, S: " "})
			}
			segs = append(segs, ex.fmtV(fr, et, *v.at(i), depth+1)...)
		}
		return append(segs, Seg{K: segLit, S: "]"})
	case array:
		et := t.Underlying().(*types.Array).Elem()
		segs := lit("[")
		for i := range v {
			if i > 0 {
				segs = append(segs, Seg{K: segLit, S: " "})
			}
			segs = append(segs, ex.fmtV(fr, et, v[i], depth+1)...)
		}
		return append(segs, Seg{K: segLit, S: "]"})
	case structure:
		st := t.Underlying().(*types.Struct)
		segs := lit("{")
		for i := range v {
			if i > 0 {
				segs = append(segs, Seg{K: segLit, S: " "})
			}
			segs = append(segs, ex.fmtV(fr, st.Field(i).Type(), v[i], depth+1)...)
		}
		return append(segs, Seg{K: segLit, S: "}"})
	case *value:
		if v == nil {
			return lit("<nil>")
		}
		et := deref(t)
		if depth == 0 {
			switch et.Underlying().(type) {
			case *types.Struct, *types.Array, *types.Slice, *types.Map:
				return append(lit("&"), ex.fmtV(fr, et, *v, depth+1)...)
			}
		}
		unsupported("fmt of a pointer value (address)")
	case *mapV:
		mt := t.Underlying().(*types.Map)
		ents := v.live()
		// fmt sorts keys; only concrete ordered keys are supported
		type kv struct {
			k value
			e *mapEntry
		}
		ok := true
		for _, e := range ents {
			if isSym(e.k) {
				ok = false
			}
		}
		if !ok && len(ents) > 1 {
			unsupported("fmt of a map with several symbolic keys (order)")
		}
		sort.SliceStable(ents, func(i, j int) bool {
			switch a := ents[i].k.(type) {
			case uint64:
				if isSigned(mt.Key()) {
					w := fr.sz.bits(mt.Key())
					return sx(a, w) < sx(ents[j].k.(uint64), w)
				}
				return a < ents[j].k.(uint64)
			case string:
				return a < ents[j].k.(string)
			case float64:
				return a < ents[j].k.(float64)
			case bool:
				return !a && ents[j].k.(bool)
			}
			return false
		})
		segs := lit("map[")
		for i, e := range ents {
			if i > 0 {
				segs = append(segs, Seg{K: segLit, S: " "})
			}
			segs = append(segs, ex.fmtV(fr, mt.Key(), e.k, depth+1)...)
			segs = append(segs, Seg{K: segLit, S: ":"})
			segs = append(segs, ex.fmtV(fr, mt.Elem(), e.v, depth+1)...)
		}
		return append(segs, Seg{K: segLit, S: "]"})
	case *ssa.Function, *closure:
		if isNilRef(v) {
			return lit("<nil>")
		}
		unsupported("fmt of a func value (address)")
	case nil:
		return lit("<nil>")
	}
	unsupported(fmt.Sprintf("fmt %%v of %T", v))
	return nil
}

func isStrOperand(v value) bool {
	it, ok := v.(iface)
	if !ok || it.t == nil {
		return false
	}
	return isString(it.t)
}

// sprint models fmt.Sprint / Sprintln.
func (ex *Exec) sprint(fr *frame, args []value, ln bool) value {
	var segs []Seg
	for i, a := range args {
		if i > 0 {
			// Sprint: space between operands when neither is a string; Sprintln: always
			if ln || (!isStrOperand(a) && !isStrOperand(args[i-1])) {
				segs = append(segs, Seg{K: segLit, S: " "})
			}
		}
		segs = append(segs, ex.fmtV(fr, nil, a, 0)...)
	}
	if ln {
		segs = append(segs, Seg{K: segLit, S: "\n"})
	}
	return mkStr(segs)
}

// sprintf models fmt.Sprintf for the verbs goatlang and the generated programs use.
func (ex *Exec) sprintf(fr *frame, format value, args []value, wrapped *value) value {
	f := str(format, "format string")
	var segs []Seg
	argi := 0
	for i := 0; i < len(f); {
		if f[i] != '%' {
			j := strings.IndexByte(f[i:], '%')
			if j < 0 {
				j = len(f) - i
			}
			segs = append(segs, Seg{K: segLit, S: f[i : i+j]})
			i += j
			continue
		}
		j := i + 1
		for j < len(f) && strings.IndexByte("+-# 0123456789.", f[j]) >= 0 {
			j++
		}
		if j >= len(f) {
			segs = append(segs, Seg{K: segLit, S: "%!(NOVERB)"})
			break
		}
		verb := f[j]
		spec := f[i : j+1]
		i = j + 1
		if verb == '%' {
			segs = append(segs, Seg{K: segLit, S: "%"})
			continue
		}
		if argi >= len(args) {
			segs = append(segs, Seg{K: segLit, S: "%!" + string(verb) + "(MISSING)"})
			continue
		}
		a := args[argi]
		argi++
		it, _ := a.(iface)
		if verb == 'w' {
			if wrapped != nil && it.t != nil {
				*wrapped = it
			}
			verb, spec = 'v', "%v"
		}
		plain := spec == "%v" || spec == "%s"
		if verb == 'T' {
			if it.t == nil {
				segs = append(segs, Seg{K: segLit, S: "<nil>"})
			} else {
				segs = append(segs, Seg{K: segLit, S: types.TypeString(it.t, nil)})
			}
			continue
		}
		if plain {
			if verb == 's' && it.t != nil {
				if _, isStr := ex.stringer(fr, it.t, it.v); !isStr && !isString(it.t) {
					// %s of a non-string, non-Stringer: fmt prints %!s(type=value); keep it simple for the common scalar cases
					if isInteger(it.t) || isFloat(it.t) || isBoolean(it.t) {
						n := ex.native(fr, it)
						segs = append(segs, Seg{K: segLit, S: fmt.Sprintf(spec, n)})
						continue
					}
				}
			}
			segs = append(segs, ex.fmtV(fr, nil, a, 0)...)
			continue
		}
		// other verbs / flags: need a concrete native operand
		if it.t != nil {
			if s, ok := ex.stringer(fr, it.t, it.v); ok && (verb == 'q' || verb == 'x' || verb == 'v' || verb == 's') {
				segs = append(segs, Seg{K: segLit, S: fmt.Sprintf(spec, str(s, "fmt verb on symbolic text"))})
				continue
			}
		}
		if t, ok := it.v.(*Term); ok && spec == "%d" && t.W > 0 {
			segs = append(segs, ex.fmtV(fr, it.t, t, 0)...)
			continue
		}
		segs = append(segs, Seg{K: segLit, S: fmt.Sprintf(spec, ex.native(fr, it))})
	}
	if argi < len(args) {
		segs = append(segs, Seg{K: segLit, S: "%!(EXTRA "})
		for k := argi; k < len(args); k++ {
			if k > argi {
				segs = append(segs, Seg{K: segLit, S: ", "})
			}
			it, _ := args[k].(iface)
			if it.t == nil {
				segs = append(segs, Seg{K: segLit, S: "<nil>"})
				continue
			}
			segs = append(segs, Seg{K: segLit, S: types.TypeString(it.t, nil) + "="})
			segs = append(segs, ex.fmtV(fr, nil, args[k], 0)...)
		}
		segs = append(segs, Seg{K: segLit, S: ")"})
	}
	return mkStr(segs)
}

// native converts a concrete scalar interface operand to the Go value fmt would see.
func (ex *Exec) native(fr *frame, it iface) interface{} {
	if it.t == nil {
		return nil
	}
	b, ok := it.t.Underlying().(*types.Basic)
	if !ok {
		unsupported("fmt verb on a " + it.t.String())
	}
	switch v := it.v.(type) {
	case bool:
		return v
	case string:
		return v
	case float64:
		if b.Kind() == types.Float32 {
			return float32(v)
		}
		return v
	case uint64:
		w := fr.sz.bits(it.t)
		switch b.Kind() {
		case types.Int:
			if w == 32 {
				return int32(v) // prints the same as a 32-bit int
			}
			return int(v)
		case types.Int8:
			return int8(v)
		case types.Int16:
			return int16(v)
		case types.Int32:
			return int32(v)
		case types.Int64:
			return int64(v)
		case types.Uint, types.Uintptr:
			if w == 32 {
				return uint32(v)
			}
			return uint(v)
		case types.Uint8:
			return uint8(v)
		case types.Uint16:
			return uint16(v)
		case types.Uint32:
			return uint32(v)
		case types.Uint64:
			return v
		}
	}
	unsupported(fmt.Sprintf("fmt verb on a symbolic or unsupported operand (%T)", it.v))
	return nil
}

// ---- io/fs on testing/fstest.MapFS ------------------------------------------------------------------------------

func (ex *Exec) mapFSFiles(sys value) map[string]*value {
	it := sys.(iface)
	if it.t == nil {
		rtPanic("invalid memory address or nil pointer dereference")
	}
	m, ok := it.v.(*mapV)
	if !ok {
		unsupported("io/fs functions on a file system of type " + it.t.String())
	}
	files := map[string]*value{}
	for _, e := range m.live() {
		files[str(e.k, "file name")] = e.v.(*value)
	}
	return files
}

// builderSeg is a strings.Builder buffer cell standing for one rendered segment (text of unknown length ≥ 1).
type builderSeg struct{ seg Seg }

func (e *Engine) registerBuilder() {
	bufOf := func(a []value) *value {
		p := a[0].(*value)
		if p == nil {
			rtPanic("invalid memory address or nil pointer dereference")
		}
		return &(*p).(structure)[1]
	}
	appendBytes := func(fr *frame, cell *value, bs []value) {
		s, _ := (*cell).(*sliceV)
		n := sliceLen(s)
		cells := make([]value, n+len(bs))
		for i := 0; i < n; i++ {
			cells[i] = *s.at(i)
		}
		copy(cells[n:], bs)
		*cell = newSliceOf(cells)
	}
	// cells of the buffer are bytes (uint64 or 8-bit terms) or, for text whose characters are not modelled (rendered
	// numbers), one builderSeg cell per rendered segment
	toBytes := func(fr *frame, s value) []value {
		var out []value
		for _, g := range strSegs(s) {
			switch g.K {
			case segLit:
				for i := 0; i < len(g.S); i++ {
					out = append(out, uint64(g.S[i]))
				}
			case segByte:
				if g.T.IsConst() {
					out = append(out, g.T.C)
				} else {
					out = append(out, g.T)
				}
			default:
				out = append(out, builderSeg{g})
			}
		}
		return out
	}
	hasSeg := func(s *sliceV) bool {
		for i := 0; i < sliceLen(s); i++ {
			if _, ok := (*s.at(i)).(builderSeg); ok {
				return true
			}
		}
		return false
	}
	e.Register("(*strings.Builder).WriteString", func(fr *frame, a []value) value {
		bs := toBytes(fr, a[1])
		appendBytes(fr, bufOf(a), bs)
		return tuple{fr.mkInt(int64(len(bs))), iface{}}
	})
	e.Register("(*strings.Builder).WriteByte", func(fr *frame, a []value) value {
		appendBytes(fr, bufOf(a), []value{a[1]})
		return iface{}
	})
	e.Register("(*strings.Builder).WriteRune", func(fr *frame, a []value) value {
		r, ok := a[1].(uint64)
		if !ok {
			unsupported("strings.Builder.WriteRune of a symbolic rune")
		}
		bs := toBytes(fr, string(rune(int32(r))))
		appendBytes(fr, bufOf(a), bs)
		return tuple{fr.mkInt(int64(len(bs))), iface{}}
	})
	e.Register("(*strings.Builder).Write", func(fr *frame, a []value) value {
		bs := strSlice(a[1], "")
		appendBytes(fr, bufOf(a), bs)
		return tuple{fr.mkInt(int64(len(bs))), iface{}}
	})
	e.Register("(*strings.Builder).String", func(fr *frame, a []value) value {
		s, _ := (*bufOf(a)).(*sliceV)
		n := sliceLen(s)
		var segs []Seg
		for i := 0; i < n; i++ {
			switch b := (*s.at(i)).(type) {
			case uint64:
				segs = append(segs, Seg{K: segLit, S: string([]byte{byte(b)})})
			case *Term:
				segs = append(segs, Seg{K: segByte, T: b})
			case builderSeg:
				segs = append(segs, b.seg)
			}
		}
		return mkStr(segs)
	})
	e.Register("(*strings.Builder).Len", func(fr *frame, a []value) value {
		s, _ := (*bufOf(a)).(*sliceV)
		if hasSeg(s) {
			// the length of rendered text is not modelled: only "is it empty" can be answered (a rendered segment
			// is never empty); callers that need more end the path
			nseg := 0
			for i := 0; i < sliceLen(s); i++ {
				if _, ok := (*s.at(i)).(builderSeg); ok {
					nseg++
				}
			}
			fr.ex.permN++
			tt := fr.ex.tt
			l := fr.ex.Input(fmt.Sprintf("builderlen_%d", fr.ex.permN), 64)
			lo, hi := uint64(sliceLen(s)), uint64(sliceLen(s)+24*nseg)
			fr.ex.Assume(tt.And(tt.Cmp(OpULe, tt.BV(lo, 64), l), tt.Cmp(OpULe, l, tt.BV(hi, 64))))
			return l // between 1 and 25 bytes per rendered segment
		}
		return fr.mkInt(int64(sliceLen(s)))
	})
	e.Register("(*strings.Builder).Reset", func(fr *frame, a []value) value { *bufOf(a) = (*sliceV)(nil); return nil })
	e.Register("(*strings.Builder).Grow", func(fr *frame, a []value) value { return nil })
}

func (e *Engine) registerFS() {
	e.Register("io/fs.Glob", func(fr *frame, a []value) value {
		files := fr.ex.mapFSFiles(a[0])
		pattern := str(a[1], "glob pattern")
		dir, file := "", pattern
		if i := strings.LastIndexByte(pattern, '/'); i >= 0 {
			dir, file = pattern[:i], pattern[i+1:]
		}
		if strings.ContainsAny(dir, `*?[\`) {
			unsupported("fs.Glob with meta characters in the directory part")
		}
		if _, err := filepath.Match(file, ""); err != nil {
			return tuple{(*sliceV)(nil), fr.ex.newErr("syntax error in pattern")}
		}
		names := map[string]bool{}
		for k := range files {
			rest := k
			if dir != "" {
				if !strings.HasPrefix(k, dir+"/") {
					continue
				}
				rest = k[len(dir)+1:]
			}
			if i := strings.IndexByte(rest, '/'); i >= 0 {
				rest = rest[:i]
			}
			names[rest] = true
		}
		var sorted []string
		for n := range names {
			sorted = append(sorted, n)
		}
		sort.Strings(sorted)
		var out []value
		for _, n := range sorted {
			if ok, _ := filepath.Match(file, n); ok {
				if dir != "" {
					out = append(out, dir+"/"+n)
				} else {
					out = append(out, n)
				}
			}
		}
		fr.ex.used("io/fs.Glob (model over MapFS)")
		if len(out) == 0 {
			return tuple{(*sliceV)(nil), iface{}}
		}
		return tuple{newSliceOf(out), iface{}}
	})
	e.Register("io/fs.ReadFile", func(fr *frame, a []value) value {
		files := fr.ex.mapFSFiles(a[0])
		name := str(a[1], "file name")
		fr.ex.used("io/fs.ReadFile (model over MapFS)")
		f, ok := files[name]
		if !ok || f == nil {
			return tuple{(*sliceV)(nil), fr.ex.errValue(&engErr{msg: "open " + name + ": file does not exist", wrapped: fr.ex.errNotExist()})}
		}
		data := (*f).(structure)[0].(*sliceV)
		n := sliceLen(data)
		cp := make([]value, n)
		for i := 0; i < n; i++ {
			cp[i] = *data.at(i)
		}
		if n == 0 {
			return tuple{(*sliceV)(nil), iface{}}
		}
		return tuple{newSliceOf(cp), iface{}}
	})
}
