package gosx

import (
	"encoding/json"
	"fmt"
	"go/types"
	"strings"
)

func fieldIndex(st *types.Struct, name string) int {
	for i := 0; i < st.NumFields(); i++ {
		if st.Field(i).Name() == name {
			return i
		}
	}
	panic("no field " + name)
}

func (e *Engine) registerIntrinsics() {
	p := TargetPath + "."
	input := func(w int) extFn {
		return func(fr *frame, a []value) value {
			return fr.ex.Input(str(a[0], "input name"), w)
		}
	}
	e.Register(p+"verifInt8", input(8))
	e.Register(p+"verifUint8", input(8))
	e.Register(p+"verifInt16", input(16))
	e.Register(p+"verifInt32", input(32))
	e.Register(p+"verifUint32", input(32))
	e.Register(p+"verifInt", input(64))
	e.Register(p+"verifUint", input(64))
	e.Register(p+"verifBool", input(SBool))
	e.Register(p+"verifFloat64", input(SFP))
	e.Register(p+"verifAssume", func(fr *frame, a []value) value {
		switch c := a[0].(type) {
		case bool:
			if !c {
				panic(pathEnd{kind: endInfeasible, msg: "verifAssume(false)"})
			}
		case *Term:
			fr.ex.Assume(c)
		}
		return nil
	})
	e.Register(p+"verifAssert", func(fr *frame, a []value) value {
		id := str(a[1], "assert id")
		fr.ex.User["asserts_seen"] = 1
		switch c := a[0].(type) {
		case bool:
			fr.ex.Assert(fr.ex.tt.Bool(c), id, "", nil)
		case *Term:
			fr.ex.Assert(c, id, "", nil)
		}
		return nil
	})
	e.Register(p+"verifReach", func(fr *frame, a []value) value {
		id := str(a[0], "reach id")
		m, _ := fr.ex.res.Notes["reach"].(map[string]int)
		if m == nil {
			m = map[string]int{}
			fr.ex.Note("reach", m)
		}
		m[id]++
		return nil
	})
	// verifChoice(name, n) returns a value in [0,n), forking over all of them.
	e.Register(p+"verifChoice", func(fr *frame, a []value) value {
		n := fr.sint(a[1], nil, "verifChoice bound")
		t := fr.ex.Input(str(a[0], "input name"), 64)
		tt := fr.ex.tt
		fr.ex.Assume(tt.Cmp(OpULt, t, tt.BV(uint64(n), 64)))
		return fr.ex.concretize(t, int(n), "verifChoice")
	})
	asT := func(fr *frame, v value) *Term {
		switch v := v.(type) {
		case bool:
			return fr.ex.tt.Bool(v)
		case *Term:
			return v
		}
		panic("verif logic intrinsic: not a bool")
	}
	simp := func(t *Term) value {
		if t.IsConst() && t.W == SBool {
			return t.C != 0
		}
		return t
	}
	e.Register(p+"verifAnd", func(fr *frame, a []value) value { return simp(fr.ex.tt.And(asT(fr, a[0]), asT(fr, a[1]))) })
	e.Register(p+"verifOr", func(fr *frame, a []value) value { return simp(fr.ex.tt.Or(asT(fr, a[0]), asT(fr, a[1]))) })
	e.Register(p+"verifNot", func(fr *frame, a []value) value { return simp(fr.ex.tt.Not(asT(fr, a[0]))) })
	e.Register(p+"verifImplies", func(fr *frame, a []value) value {
		return simp(fr.ex.tt.Or(fr.ex.tt.Not(asT(fr, a[0])), asT(fr, a[1])))
	})
	e.Register(p+"verifIteInt", func(fr *frame, a []value) value {
		c := asT(fr, a[0])
		if c.IsConst() {
			if c.C != 0 {
				return a[1]
			}
			return a[2]
		}
		r := fr.ex.tt.Ite(c, fr.ex.liftW(a[1], 64), fr.ex.liftW(a[2], 64))
		if r.IsConst() {
			return r.C
		}
		return r
	})
	e.Register(p+"verifCfg", func(fr *frame, a []value) value {
		name := str(a[0], "cfg name")
		v, ok := e.Cfg[name]
		if !ok {
			v = int(fr.sint(a[1], nil, "cfg default"))
		}
		t := fr.ex.Input("cfg_"+name, 64)
		fr.ex.Assume(fr.ex.tt.Eq(t, fr.ex.tt.BV(uint64(v), 64)))
		return uint64(v)
	})
	e.Register(p+"tokenize", func(fr *frame, a []value) value {
		if e.Native == nil {
			unsupported("tokenize needs the native helper")
		}
		fname, src := str(a[0], "tokenize filename"), str(a[1], "tokenize of symbolic source text")
		if strings.HasPrefix(src, TokenMarker) {
			var spec TokenSpec
			if err := json.Unmarshal([]byte(src[len(TokenMarker):]), &spec); err != nil {
				panic("bad token spec: " + err.Error())
			}
			fr.ex.used("tokenize→symbolic token list")
			return tuple{fr.ex.symbolicTokens(fname, spec), iface{}}
		}
		fr.ex.used("tokenize→native")
		r, err := e.Native.Tokenize(fname, src)
		if err != nil {
			panic(fmt.Sprintf("native tokenize failed: %v", err))
		}
		if r.HostPanic != "" {
			rtPanic(r.HostPanic) // a Go panic inside the real tokenizer is a panic of the code under test
		}
		return tuple{fr.ex.makeTokens(r.Tokens), fr.ex.errOrNil(r.Err)}
	})
	e.Register(p+"checkConstraint", func(fr *frame, a []value) value {
		if e.Native == nil {
			unsupported("checkConstraint needs the native helper")
		}
		var r struct {
			OK        bool
			Err       string
			HostPanic string
		}
		fr.ex.used("checkConstraint→native")
		if err := e.Native.Request(map[string]string{"Op": "constraint", "Src": str(a[0], "checkConstraint of symbolic text")}, &r); err != nil {
			panic(fmt.Sprintf("native checkConstraint failed: %v", err))
		}
		if r.HostPanic != "" {
			rtPanic(r.HostPanic) // a Go panic inside the real checkConstraint is a panic of the code under test
		}
		return tuple{r.OK, fr.ex.errOrNil(r.Err)}
	})
}

func (ex *Exec) errOrNil(msg string) value {
	if msg == "" {
		return iface{}
	}
	return ex.newErr(msg)
}

// makeTokens materialises []*token in the engine heap from the natively produced token list.
func (ex *Exec) makeTokens(toks []NativeToken) value {
	tokT := ex.eng.Pkg.Type("token").Type()
	st := tokT.Underlying().(*types.Struct)
	iPos, iSym, iText, iToks := fieldIndex(st, "Pos"), fieldIndex(st, "Symbol"), fieldIndex(st, "Text"), fieldIndex(st, "Tokens")
	pst := st.Field(iPos).Type().Underlying().(*types.Struct)
	iF, iO, iL, iC := fieldIndex(pst, "Filename"), fieldIndex(pst, "Offset"), fieldIndex(pst, "Line"), fieldIndex(pst, "Column")
	vals := make([]value, len(toks))
	for i, t := range toks {
		pos := make(structure, pst.NumFields())
		pos[iF], pos[iO], pos[iL], pos[iC] = t.File, uint64(t.Off), uint64(t.Line), uint64(t.Col)
		s := make(structure, st.NumFields())
		for k := range s {
			s[k] = zero(st.Field(k).Type())
		}
		s[iPos], s[iSym], s[iText], s[iToks] = pos, t.Sym, t.Text, (*sliceV)(nil)
		cell := new(value)
		*cell = s
		vals[i] = cell
	}
	if len(vals) == 0 {
		return (*sliceV)(nil)
	}
	return newSliceOf(vals)
}
