package gosx

import (
	"fmt"
	"go/constant"
	"go/types"
	"math"
	"strconv"
	"strings"

	"golang.org/x/tools/go/ssa"
)

// value is an engine value:
//
//	bool | *Term(Bool)            booleans
//	uint64 | *Term(BV w)          all integer kinds (masked to the static width)
//	float64 | *Term(FP)           float64 / float32 (float32 concrete only)
//	string | *SymStr              strings
//	*value                        pointers (nil pointer = (*value)(nil))
//	structure, array              aggregates (by value; copied on load/store)
//	*sliceV                       slices (nil slice = (*sliceV)(nil))
//	*mapV                         maps (nil map = (*mapV)(nil))
//	iface                         interfaces
//	*ssa.Function,*closure,*ssa.Builtin  functions
//	tuple                         multi-value results
type value interface{}

type tuple []value
type array []value
type structure []value

type iface struct {
	t types.Type // nil for the nil interface
	v value
}

type closure struct {
	Fn  *ssa.Function
	Env []value
}

type bad struct{}

// backing is the allocation behind slices.
type backing struct {
	cells []value
}

type sliceV struct {
	b             *backing
	off, len, cap int
}

func (s *sliceV) at(i int) *value { return &s.b.cells[s.off+i] }

func sliceLen(v value) int {
	s := v.(*sliceV)
	if s == nil {
		return 0
	}
	return s.len
}

func sliceCap(v value) int {
	s := v.(*sliceV)
	if s == nil {
		return 0
	}
	return s.cap
}

func newSliceOf(vals []value) *sliceV {
	return &sliceV{b: &backing{cells: vals}, len: len(vals), cap: len(vals)}
}

// mapV is an insertion-ordered map; keys may be symbolic scalars.
type mapEntry struct {
	k, v value
	dead bool
}

type mapV struct {
	keyT    types.Type
	conc    map[interface{}]*mapEntry // concrete scalar keys
	entries []*mapEntry               // insertion order, live and dead
	n       int
	hasSym  bool
}

func newMapV(kt types.Type) *mapV {
	return &mapV{keyT: kt, conc: map[interface{}]*mapEntry{}}
}

func (m *mapV) length() int {
	if m == nil {
		return 0
	}
	return m.n
}

func (m *mapV) live() []*mapEntry {
	if m == nil {
		return nil
	}
	var r []*mapEntry
	for _, e := range m.entries {
		if !e.dead {
			r = append(r, e)
		}
	}
	return r
}

func (m *mapV) compact() {
	if len(m.entries) > 32 && len(m.entries) > 2*m.n {
		m.entries = m.live()
	}
}

// concKey canonicalises a concrete key for the Go map (floats: -0 → +0; NaN is never found).
func concKey(k value) (interface{}, bool) {
	switch k := k.(type) {
	case uint64, bool, string, *value:
		return k, true
	case float64:
		if k != k {
			return nil, false
		}
		if k == 0 {
			return float64(0), true
		}
		return k, true
	case iface:
		if k.t == nil {
			return iface{}, true
		}
		if ck, ok := concKey(k.v); ok {
			return [2]interface{}{k.t.String(), ck}, true
		}
	}
	return nil, false
}

func isSym(v value) bool {
	switch v.(type) {
	case *Term, *SymStr:
		return true
	}
	return false
}

// ---------------------------------------------------------------------------------------------
// types helpers

type sizer struct{ types.Sizes }

func (s sizer) bits(t types.Type) int {
	if b, ok := t.Underlying().(*types.Basic); ok {
		switch b.Kind() {
		case types.UntypedInt, types.UntypedRune:
			return 64
		case types.UntypedBool, types.Bool:
			return 0
		}
	}
	return int(s.Sizeof(t)) * 8
}

func isSigned(t types.Type) bool {
	b, ok := t.Underlying().(*types.Basic)
	return ok && b.Info()&types.IsInteger != 0 && b.Info()&types.IsUnsigned == 0
}
func isInteger(t types.Type) bool {
	b, ok := t.Underlying().(*types.Basic)
	return ok && b.Info()&types.IsInteger != 0
}
func isFloat(t types.Type) bool {
	b, ok := t.Underlying().(*types.Basic)
	return ok && b.Info()&types.IsFloat != 0
}
func isString(t types.Type) bool {
	b, ok := t.Underlying().(*types.Basic)
	return ok && b.Info()&types.IsString != 0
}
func isBoolean(t types.Type) bool {
	b, ok := t.Underlying().(*types.Basic)
	return ok && b.Info()&types.IsBoolean != 0
}
func isFloat32(t types.Type) bool {
	b, ok := t.Underlying().(*types.Basic)
	return ok && b.Kind() == types.Float32
}

func deref(t types.Type) types.Type {
	if p, ok := t.Underlying().(*types.Pointer); ok {
		return p.Elem()
	}
	panic(fmt.Sprintf("deref of non-pointer %s", t))
}

// zero returns the zero value of t.
func zero(t types.Type) value {
	switch t := t.(type) {
	case *types.Basic:
		if t.Kind() == types.UntypedNil {
			panic("untyped nil has no zero value")
		}
		switch {
		case t.Info()&types.IsBoolean != 0:
			return false
		case t.Info()&types.IsInteger != 0:
			return uint64(0)
		case t.Info()&types.IsFloat != 0:
			return float64(0)
		case t.Info()&types.IsString != 0:
			return ""
		case t.Kind() == types.UnsafePointer:
			return (*value)(nil)
		}
		panic(fmt.Sprintf("zero: unsupported basic type %s", t))
	case *types.Pointer:
		return (*value)(nil)
	case *types.Array:
		a := make(array, t.Len())
		for i := range a {
			a[i] = zero(t.Elem())
		}
		return a
	case *types.Named:
		return zero(t.Underlying())
	case *types.Alias:
		return zero(types.Unalias(t))
	case *types.Interface:
		return iface{}
	case *types.Slice:
		return (*sliceV)(nil)
	case *types.Struct:
		s := make(structure, t.NumFields())
		for i := range s {
			s[i] = zero(t.Field(i).Type())
		}
		return s
	case *types.Tuple:
		if t.Len() == 1 {
			return zero(t.At(0).Type())
		}
		s := make(tuple, t.Len())
		for i := range s {
			s[i] = zero(t.At(i).Type())
		}
		return s
	case *types.Chan:
		panic(pathEnd{kind: endUnsupported, msg: "channels are not supported"})
	case *types.Map:
		return (*mapV)(nil)
	case *types.Signature:
		return (*ssa.Function)(nil)
	case *types.TypeParam:
		panic("zero of type parameter (program not instantiated)")
	}
	panic(fmt.Sprintf("zero: unexpected %T", t))
}

// copyVal deep-copies aggregates (value semantics); everything else is shared.
func copyVal(v value) value {
	switch v := v.(type) {
	case structure:
		a := make(structure, len(v))
		for i := range v {
			a[i] = copyVal(v[i])
		}
		return a
	case array:
		a := make(array, len(v))
		for i := range v {
			a[i] = copyVal(v[i])
		}
		return a
	}
	return v
}

func load(addr *value) value { return copyVal(*addr) }

// store writes v into *addr preserving the identity of nested aggregate cells (pointers into them stay valid).
func store(addr *value, v value) {
	switch rhs := v.(type) {
	case structure:
		lhs, ok := (*addr).(structure)
		if !ok || len(lhs) != len(rhs) {
			*addr = copyVal(rhs)
			return
		}
		for i := range lhs {
			store(&lhs[i], rhs[i])
		}
	case array:
		lhs, ok := (*addr).(array)
		if !ok || len(lhs) != len(rhs) {
			*addr = copyVal(rhs)
			return
		}
		for i := range lhs {
			store(&lhs[i], rhs[i])
		}
	default:
		*addr = v
	}
}

// constValue returns the engine value of an SSA constant.
func constValue(c *ssa.Const, sz sizer) value {
	if c.Value == nil {
		return zero(c.Type())
	}
	t := c.Type().Underlying()
	if b, ok := t.(*types.Basic); ok {
		switch {
		case b.Info()&types.IsBoolean != 0:
			return constant.BoolVal(c.Value)
		case b.Info()&types.IsInteger != 0:
			w := sz.bits(c.Type())
			if i, ok := constant.Int64Val(constant.ToInt(c.Value)); ok {
				return uint64(i) & mask(w)
			}
			u, _ := constant.Uint64Val(constant.ToInt(c.Value))
			return u & mask(w)
		case b.Info()&types.IsFloat != 0:
			f, _ := constant.Float64Val(c.Value)
			if b.Kind() == types.Float32 {
				return float64(float32(f))
			}
			return f
		case b.Info()&types.IsString != 0:
			if c.Value.Kind() == constant.String {
				return constant.StringVal(c.Value)
			}
			i, _ := constant.Int64Val(c.Value)
			return string(rune(i))
		}
	}
	panic(fmt.Sprintf("constValue: unexpected constant %s of type %s", c, c.Type()))
}

// ---------------------------------------------------------------------------------------------
// Symbolic strings: a sequence of segments.

type segKind uint8

const (
	segLit  segKind = iota
	segDec          // decimal rendering of a signed 64-bit integer term
	segUDec         // decimal rendering of an unsigned 64-bit integer term
	segFlt          // fmt %v rendering of a float64 term
	segBool         // "true"/"false" of a Bool term
	segByte         // one byte, a BV8 term
	segRune         // UTF-8 encoding of a BV32 rune term (string(rune))
)

type Seg struct {
	K segKind
	S string
	T *Term
}

type SymStr struct{ Segs []Seg }

func (s *SymStr) String() string {
	var sb strings.Builder
	for _, g := range s.Segs {
		switch g.K {
		case segLit:
			sb.WriteString(g.S)
		case segDec:
			sb.WriteString("⟨dec " + g.T.String() + "⟩")
		case segUDec:
			sb.WriteString("⟨udec " + g.T.String() + "⟩")
		case segFlt:
			sb.WriteString("⟨flt " + g.T.String() + "⟩")
		case segBool:
			sb.WriteString("⟨bool " + g.T.String() + "⟩")
		case segByte:
			sb.WriteString("⟨byte " + g.T.String() + "⟩")
		case segRune:
			sb.WriteString("⟨rune " + g.T.String() + "⟩")
		}
	}
	return sb.String()
}

func strSegs(v value) []Seg {
	switch v := v.(type) {
	case string:
		if v == "" {
			return nil
		}
		return []Seg{{K: segLit, S: v}}
	case *SymStr:
		return v.Segs
	}
	panic(fmt.Sprintf("strSegs: not a string: %T", v))
}

// mkStr normalises segments: merges literals, folds constant terms; returns a Go string when fully concrete.
func mkStr(segs []Seg) value {
	var out []Seg
	push := func(g Seg) {
		if g.K == segLit {
			if g.S == "" {
				return
			}
			if n := len(out); n > 0 && out[n-1].K == segLit {
				out[n-1].S += g.S
				return
			}
		}
		out = append(out, g)
	}
	for _, g := range segs {
		if g.K != segLit && g.T.IsConst() {
			switch g.K {
			case segDec:
				g = Seg{K: segLit, S: strconv.FormatInt(int64(g.T.C), 10)}
			case segUDec:
				g = Seg{K: segLit, S: strconv.FormatUint(g.T.C, 10)}
			case segFlt:
				g = Seg{K: segLit, S: fmt.Sprint(g.T.F)}
			case segBool:
				g = Seg{K: segLit, S: strconv.FormatBool(g.T.C != 0)}
			case segByte:
				g = Seg{K: segLit, S: string([]byte{byte(g.T.C)})}
			case segRune:
				g = Seg{K: segLit, S: string(rune(int32(g.T.C)))}
			}
		}
		push(g)
	}
	if len(out) == 0 {
		return ""
	}
	if len(out) == 1 && out[0].K == segLit {
		return out[0].S
	}
	return &SymStr{Segs: out}
}

func concatStr(a, b value) value {
	sa, sb := strSegs(a), strSegs(b)
	r := make([]Seg, 0, len(sa)+len(sb))
	r = append(r, sa...)
	r = append(r, sb...)
	return mkStr(r)
}

// byteSegs expands a string value into per-byte terms; ok=false if some segment has unknown length.
func (ex *Exec) byteTerms(v value) ([]*Term, bool) {
	var r []*Term
	for _, g := range strSegs(v) {
		switch g.K {
		case segLit:
			for i := 0; i < len(g.S); i++ {
				r = append(r, ex.tt.BV(uint64(g.S[i]), 8))
			}
		case segByte:
			r = append(r, g.T)
		default:
			return nil, false
		}
	}
	return r, true
}

func strFromBytes(bs []value) value {
	segs := make([]Seg, 0, len(bs))
	for _, b := range bs {
		switch b := b.(type) {
		case uint64:
			segs = append(segs, Seg{K: segLit, S: string([]byte{byte(b)})})
		case *Term:
			segs = append(segs, Seg{K: segByte, T: b})
		default:
			panic(fmt.Sprintf("strFromBytes: %T", b))
		}
	}
	return mkStr(segs)
}

// ---------------------------------------------------------------------------------------------
// debugging / sample rendering

func show(v value) string {
	switch v := v.(type) {
	case nil:
		return "<nil>"
	case bool, uint64, float64:
		return fmt.Sprint(v)
	case string:
		return strconv.Quote(v)
	case *Term:
		return v.String()
	case *SymStr:
		return v.String()
	case *value:
		if v == nil {
			return "nilptr"
		}
		return "&" + show(*v)
	case structure:
		var p []string
		for _, e := range v {
			p = append(p, show(e))
		}
		return "{" + strings.Join(p, " ") + "}"
	case array:
		var p []string
		for _, e := range v {
			p = append(p, show(e))
		}
		return "[" + strings.Join(p, " ") + "]"
	case tuple:
		var p []string
		for _, e := range v {
			p = append(p, show(e))
		}
		return "(" + strings.Join(p, ", ") + ")"
	case *sliceV:
		if v == nil {
			return "nilslice"
		}
		var p []string
		for i := 0; i < v.len && i < 16; i++ {
			p = append(p, show(*v.at(i)))
		}
		return "[]{" + strings.Join(p, " ") + "}"
	case *mapV:
		if v == nil {
			return "nilmap"
		}
		var p []string
		for _, e := range v.live() {
			p = append(p, show(e.k)+":"+show(e.v))
		}
		return "map{" + strings.Join(p, " ") + "}"
	case iface:
		if v.t == nil {
			return "nil-iface"
		}
		return "(" + v.t.String() + ")" + show(v.v)
	case *ssa.Function:
		if v == nil {
			return "nilfunc"
		}
		return v.String()
	case *closure:
		return "closure:" + v.Fn.String()
	}
	return fmt.Sprintf("<%T>", v)
}

var _ = math.Abs
