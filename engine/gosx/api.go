package gosx

import (
	"fmt"
	"go/types"
	"sort"

	"golang.org/x/tools/go/ssa"
)

// Exported helpers for drivers to build and inspect engine values.

type Value = value
type Struct = structure
type Tuple = tuple
type Iface = iface
type TargetPanic = targetPanic

func Str(v Value) (string, bool) { s, ok := v.(string); return s, ok }

func ShowValue(v Value) string { return show(v) }

// MkSlice builds a slice value from elements.
func MkSlice(vals ...Value) Value {
	if len(vals) == 0 {
		return (*sliceV)(nil)
	}
	return newSliceOf(vals)
}

// SliceElems returns the elements of a slice value.
func SliceElems(v Value) []Value {
	s := v.(*sliceV)
	n := sliceLen(s)
	r := make([]Value, n)
	for i := 0; i < n; i++ {
		r[i] = *s.at(i)
	}
	return r
}

// Field returns field name of a struct value of (named) type t.
func (ex *Exec) Field(v Value, t types.Type, name string) Value {
	st := t.Underlying().(*types.Struct)
	return v.(structure)[fieldIndex(st, name)]
}

// TypeOf returns the named type from the package under test.
func (e *Engine) TypeOf(name string) types.Type {
	m := e.Pkg.Type(name)
	if m == nil {
		panic("no type " + name)
	}
	return m.Type()
}

// IfaceParts splits an interface value.
func IfaceParts(v Value) (types.Type, Value) {
	it := v.(iface)
	return it.t, it.v
}

func IsNilIface(v Value) bool { it, ok := v.(iface); return ok && it.t == nil }

// ErrText returns the text of an error interface value ("" for nil); symbolic parts are rendered descriptively.
func (ex *Exec) ErrText(v Value) (Value, bool) {
	it := v.(iface)
	if it.t == nil {
		return "", false
	}
	if ee, ok := it.v.(*engErr); ok {
		return ee.text(), true
	}
	s, ok := ex.stringer(nil, it.t, it.v)
	if !ok {
		return fmt.Sprintf("<error of type %s>", it.t), true
	}
	return s, true
}

// Deref loads through a pointer value.
func Deref(v Value) Value { return load(v.(*value)) }

func IsNilPtr(v Value) bool { p, ok := v.(*value); return ok && p == nil }

// RefFunc returns a function of a reference package.
func RefFunc(p *ssa.Package, name string) *ssa.Function { return p.Func(name) }

// StrSegs exposes the segments of a string value.
func StrSegs(v Value) []Seg { return strSegs(v) }

func MkStr(segs []Seg) Value { return mkStr(segs) }

// Lit reports whether the string value is fully concrete.
func Lit(v Value) (string, bool) {
	s, ok := v.(string)
	return s, ok
}

const (
	SegLit  = segLit
	SegDec  = segDec
	SegUDec = segUDec
	SegFlt  = segFlt
	SegBool = segBool
	SegByte = segByte
	SegRune = segRune
)

// ReverseMapRangesIn returns a MapOrderHook that explores every range over a native Go map executed inside a function
// whose name contains one of the given substrings in BOTH insertion order and reverse order (Go's map iteration order
// is unspecified; the engine's own order is insertion order, which would hide a dependence on it).
func ReverseMapRangesIn(substrs ...string) func(ex *Exec, entries []*mapEntry) []*mapEntry {
	return func(ex *Exec, entries []*mapEntry) []*mapEntry {
		if ex.top == nil || ex.top.fn == nil {
			return entries
		}
		hit := false
		for _, s := range substrs {
			if containsStr(ex.top.fn.String(), s) {
				hit = true
			}
		}
		var live []*mapEntry
		for _, e := range entries {
			if !e.dead {
				live = append(live, e)
			}
		}
		if !hit || len(live) < 2 {
			return entries
		}
		ex.permN++
		t := ex.Input(fmt.Sprintf("maporder_%d", ex.permN), 64)
		ex.Assume(ex.tt.Cmp(OpULt, t, ex.tt.BV(2, 64)))
		if ex.concretize(t, 2, "map iteration order (forward / reverse)") == 0 {
			return entries
		}
		out := make([]*mapEntry, 0, len(live))
		for i := len(live) - 1; i >= 0; i-- {
			out = append(out, live[i])
		}
		return out
	}
}

// PermuteInMapsKeys returns a MapOrderHook that, inside x/exp/maps.Keys, forks over every permutation of the
// entries (up to max live entries; beyond that the insertion order is kept).
func PermuteInMapsKeys(max int) func(ex *Exec, entries []*mapEntry) []*mapEntry {
	return func(ex *Exec, entries []*mapEntry) []*mapEntry {
		if ex.top == nil || ex.top.fn == nil || !containsStr(ex.top.fn.String(), "maps.Keys") {
			return entries
		}
		var live []*mapEntry
		for _, e := range entries {
			if !e.dead {
				live = append(live, e)
			}
		}
		n := len(live)
		if n < 2 || n > max {
			return live
		}
		fact := 1
		for i := 2; i <= n; i++ {
			fact *= i
		}
		ex.permN++
		t := ex.Input(fmt.Sprintf("perm_%d", ex.permN), 64)
		ex.Assume(ex.tt.Cmp(OpULt, t, ex.tt.BV(uint64(fact), 64)))
		idx := int(ex.concretize(t, fact, "map iteration order"))
		// decode the permutation index (factorial number system)
		pool := append([]*mapEntry(nil), live...)
		out := make([]*mapEntry, 0, n)
		for i := n; i >= 1; i-- {
			f := 1
			for j := 2; j < i; j++ {
				f *= j
			}
			k := idx / f
			idx %= f
			out = append(out, pool[k])
			pool = append(pool[:k], pool[k+1:]...)
		}
		return out
	}
}

// TopFunc names the innermost function of the package under test that was active when the last panic/abort happened.
func (ex *Exec) TopFunc() string {
	for fr := ex.top; fr != nil; fr = fr.caller {
		if fr.fn != nil && fr.fn.Pkg == ex.eng.Pkg {
			n := fr.fn.String()
			if i := len(TargetPath); len(n) > i {
				return containsTrim(n)
			}
			return n
		}
	}
	return "?"
}

func containsTrim(n string) string {
	out := ""
	for i := 0; i < len(n); {
		if i+len(TargetPath) <= len(n) && n[i:i+len(TargetPath)] == TargetPath {
			i += len(TargetPath)
			if i < len(n) && n[i] == '.' {
				i++
			}
			continue
		}
		out += string(n[i])
		i++
	}
	return out
}

func (ex *Exec) LazyForced() []string { return append([]string(nil), ex.lazyForced...) }

// PanicOrigin names the function of the package under test in which the escaping panic was raised.
func (ex *Exec) PanicOrigin() string { return ex.panicFrom }

// MkStringMap builds a map[string]string value.
func MkStringMap(m map[string]string) Value {
	mv := newMapV(types.Typ[types.String])
	keys := make([]string, 0, len(m))
	for k := range m {
		keys = append(keys, k)
	}
	sort.Strings(keys)
	for _, k := range keys {
		e := &mapEntry{k: k, v: m[k]}
		mv.entries = append(mv.entries, e)
		mv.conc[k] = e
		mv.n++
	}
	return mv
}

// ConcreteOf returns the value the path condition forces for a 32/64-bit input term (its model value if the term
// cannot take any other value), or -1.
func (ex *Exec) ConcreteOf(t *Term) int64 {
	v, _ := Eval(t, ex.model)
	ex.flushPC()
	verdict, _ := ex.solver.Check([]*Term{ex.tt.Not(ex.tt.Eq(t, ex.tt.BV(v, t.W)))}, nil, false)
	if verdict != Unsat {
		return -1
	}
	return sx(v, t.W)
}
