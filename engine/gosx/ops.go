package gosx

import (
	"fmt"
	"go/token"
	"go/types"
	"math"
	"unicode/utf8"

	"golang.org/x/tools/go/ssa"
)

// lift turns a concrete scalar into a constant term of the sort implied by t.
func (fr *frame) lift(v value, t types.Type) *Term {
	tt := fr.ex.tt
	switch v := v.(type) {
	case *Term:
		return v
	case bool:
		return tt.Bool(v)
	case uint64:
		return tt.BV(v, fr.sz.bits(t))
	case float64:
		return tt.FP(v)
	}
	panic(fmt.Sprintf("lift: cannot lift %T (type %s)", v, t))
}

func (ex *Exec) liftW(v value, w int) *Term {
	switch v := v.(type) {
	case *Term:
		return v
	case uint64:
		return ex.tt.BV(v, w)
	case bool:
		return ex.tt.Bool(v)
	case float64:
		return ex.tt.FP(v)
	}
	panic(fmt.Sprintf("liftW: %T", v))
}

func rtPanic(msg string) {
	panic(targetPanic{v: runtimeError(msg)})
}

// runtimeError is the engine's stand-in for runtime.Error values.
type runtimeError string

// binop implements all binary operators except the comparison of aggregates (see equals).
func (fr *frame) binop(op token.Token, t types.Type, x, y value, yt types.Type) value {
	switch op {
	case token.EQL:
		return fr.equals(t, x, y)
	case token.NEQ:
		return fr.not(fr.equals(t, x, y))
	}
	ut := t.Underlying()
	b, ok := ut.(*types.Basic)
	if !ok {
		panic(fmt.Sprintf("binop %s on %s", op, t))
	}
	info := b.Info()
	switch {
	case info&types.IsInteger != 0:
		return fr.intBinop(op, t, x, y, yt)
	case info&types.IsFloat != 0:
		return fr.floatBinop(op, b.Kind() == types.Float32, x, y)
	case info&types.IsString != 0:
		return fr.stringBinop(op, x, y)
	case info&types.IsBoolean != 0:
		// && and || are compiled to control flow; only ==, != reach here (handled above)
	}
	panic(fmt.Sprintf("binop %s on %s", op, t))
}

func (fr *frame) not(v value) value {
	switch v := v.(type) {
	case bool:
		return !v
	case *Term:
		return fr.ex.tt.Not(v)
	}
	panic("not: non-bool")
}

func bval(b bool) value { return b }

func (fr *frame) intBinop(op token.Token, t types.Type, x, y value, yt types.Type) value {
	w := fr.sz.bits(t)
	signed := isSigned(t)
	tt := fr.ex.tt
	// shifts: the count has its own type
	if op == token.SHL || op == token.SHR {
		yw := fr.sz.bits(yt)
		ysigned := isSigned(yt)
		xc, xok := x.(uint64)
		yc, yok := y.(uint64)
		if yok {
			if ysigned && sx(yc, yw) < 0 {
				rtPanic("negative shift amount")
			}
			if xok {
				return shiftConcrete(op, xc, yc, w, signed)
			}
			if yc >= uint64(w) {
				if op == token.SHL || !signed {
					return uint64(0)
				}
				yc = uint64(w - 1)
			}
			xt := x.(*Term)
			switch {
			case op == token.SHL:
				return tt.Bin(OpShl, xt, tt.BV(yc, w))
			case signed:
				return tt.Bin(OpAShr, xt, tt.BV(yc, w))
			default:
				return tt.Bin(OpLShr, xt, tt.BV(yc, w))
			}
		}
		yt2 := y.(*Term)
		if ysigned {
			neg := tt.Cmp(OpSLt, yt2, tt.BV(0, yw))
			if fr.ex.branch(neg, "shift count < 0") {
				rtPanic("negative shift amount")
			}
		}
		xt := fr.ex.liftW(x, w)
		// saturate the count to w (all counts ≥ w behave alike)
		var cnt *Term
		if yw > w {
			big := tt.Cmp(OpULe, tt.BV(uint64(w), yw), yt2)
			cnt = tt.Ite(big, tt.BV(uint64(w), w), tt.Extract(yt2, w-1, 0))
		} else {
			cnt = tt.ZExt(yt2, w-yw)
		}
		switch {
		case op == token.SHL:
			return tt.Bin(OpShl, xt, cnt)
		case signed:
			return tt.Bin(OpAShr, xt, cnt)
		default:
			return tt.Bin(OpLShr, xt, cnt)
		}
	}

	xc, xok := x.(uint64)
	yc, yok := y.(uint64)
	if xok && yok {
		return intConcrete(op, xc, yc, w, signed)
	}
	xt, yt3 := fr.ex.liftW(x, w), fr.ex.liftW(y, w)
	switch op {
	case token.ADD:
		return tt.Bin(OpAdd, xt, yt3)
	case token.SUB:
		return tt.Bin(OpSub, xt, yt3)
	case token.MUL:
		return tt.Bin(OpMul, xt, yt3)
	case token.QUO, token.REM:
		if fr.ex.branch(tt.Eq(yt3, tt.BV(0, w)), "divisor == 0") {
			rtPanic("integer divide by zero")
		}
		switch {
		case op == token.QUO && signed:
			return tt.Bin(OpSDiv, xt, yt3)
		case op == token.QUO:
			return tt.Bin(OpUDiv, xt, yt3)
		case signed:
			return tt.Bin(OpSRem, xt, yt3)
		default:
			return tt.Bin(OpURem, xt, yt3)
		}
	case token.AND:
		return tt.Bin(OpAnd, xt, yt3)
	case token.OR:
		return tt.Bin(OpOr, xt, yt3)
	case token.XOR:
		return tt.Bin(OpXor, xt, yt3)
	case token.AND_NOT:
		return tt.Bin(OpAnd, xt, tt.Un(OpNot, yt3))
	case token.LSS:
		if signed {
			return tt.Cmp(OpSLt, xt, yt3)
		}
		return tt.Cmp(OpULt, xt, yt3)
	case token.LEQ:
		if signed {
			return tt.Cmp(OpSLe, xt, yt3)
		}
		return tt.Cmp(OpULe, xt, yt3)
	case token.GTR:
		if signed {
			return tt.Cmp(OpSLt, yt3, xt)
		}
		return tt.Cmp(OpULt, yt3, xt)
	case token.GEQ:
		if signed {
			return tt.Cmp(OpSLe, yt3, xt)
		}
		return tt.Cmp(OpULe, yt3, xt)
	}
	panic(fmt.Sprintf("intBinop: %s", op))
}

func shiftConcrete(op token.Token, x, y uint64, w int, signed bool) value {
	if op == token.SHL {
		if y >= uint64(w) {
			return uint64(0)
		}
		return (x << y) & mask(w)
	}
	if signed {
		if y >= uint64(w) {
			y = uint64(w - 1)
		}
		return uint64(sx(x, w)>>y) & mask(w)
	}
	if y >= uint64(w) {
		return uint64(0)
	}
	return x >> y
}

func intConcrete(op token.Token, x, y uint64, w int, signed bool) value {
	m := mask(w)
	switch op {
	case token.ADD:
		return (x + y) & m
	case token.SUB:
		return (x - y) & m
	case token.MUL:
		return (x * y) & m
	case token.QUO:
		if y == 0 {
			rtPanic("integer divide by zero")
		}
		if signed {
			a, b := sx(x, w), sx(y, w)
			if b == -1 {
				return uint64(-a) & m
			}
			return uint64(a/b) & m
		}
		return (x / y) & m
	case token.REM:
		if y == 0 {
			rtPanic("integer divide by zero")
		}
		if signed {
			a, b := sx(x, w), sx(y, w)
			if b == -1 {
				return uint64(0)
			}
			return uint64(a%b) & m
		}
		return (x % y) & m
	case token.AND:
		return x & y
	case token.OR:
		return x | y
	case token.XOR:
		return x ^ y
	case token.AND_NOT:
		return x &^ y
	case token.LSS:
		if signed {
			return sx(x, w) < sx(y, w)
		}
		return x < y
	case token.LEQ:
		if signed {
			return sx(x, w) <= sx(y, w)
		}
		return x <= y
	case token.GTR:
		if signed {
			return sx(x, w) > sx(y, w)
		}
		return x > y
	case token.GEQ:
		if signed {
			return sx(x, w) >= sx(y, w)
		}
		return x >= y
	}
	panic(fmt.Sprintf("intConcrete: %s", op))
}

func (fr *frame) floatBinop(op token.Token, f32 bool, x, y value) value {
	xc, xok := x.(float64)
	yc, yok := y.(float64)
	if xok && yok {
		var r float64
		switch op {
		case token.ADD:
			r = xc + yc
		case token.SUB:
			r = xc - yc
		case token.MUL:
			r = xc * yc
		case token.QUO:
			r = xc / yc
		case token.LSS:
			return xc < yc
		case token.LEQ:
			return xc <= yc
		case token.GTR:
			return xc > yc
		case token.GEQ:
			return xc >= yc
		default:
			panic(fmt.Sprintf("floatBinop: %s", op))
		}
		if f32 {
			r = float64(float32(r))
		}
		return r
	}
	if f32 {
		panic(pathEnd{kind: endUnsupported, msg: "symbolic float32 arithmetic"})
	}
	tt := fr.ex.tt
	xt, yt := fr.ex.liftW(x, SFP), fr.ex.liftW(y, SFP)
	switch op {
	case token.ADD:
		return tt.FBin(OpFAdd, xt, yt)
	case token.SUB:
		return tt.FBin(OpFSub, xt, yt)
	case token.MUL:
		return tt.FBin(OpFMul, xt, yt)
	case token.QUO:
		return tt.FBin(OpFDiv, xt, yt)
	case token.LSS:
		return tt.FCmp(OpFLt, xt, yt)
	case token.LEQ:
		return tt.FCmp(OpFLe, xt, yt)
	case token.GTR:
		return tt.FCmp(OpFLt, yt, xt)
	case token.GEQ:
		return tt.FCmp(OpFLe, yt, xt)
	}
	panic(fmt.Sprintf("floatBinop: %s", op))
}

func (fr *frame) stringBinop(op token.Token, x, y value) value {
	xs, xok := x.(string)
	ys, yok := y.(string)
	if op == token.ADD {
		if xok && yok {
			return xs + ys
		}
		return concatStr(x, y)
	}
	if xok && yok {
		switch op {
		case token.LSS:
			return xs < ys
		case token.LEQ:
			return xs <= ys
		case token.GTR:
			return xs > ys
		case token.GEQ:
			return xs >= ys
		}
	}
	// symbolic bytes: lexicographic comparison
	xb, ok1 := fr.ex.byteTerms(x)
	yb, ok2 := fr.ex.byteTerms(y)
	if !ok1 || !ok2 {
		panic(pathEnd{kind: endUnsupported, msg: "ordering of strings with rendered segments"})
	}
	tt := fr.ex.tt
	lt := fr.ex.bytesLess(xb, yb, false)
	le := fr.ex.bytesLess(xb, yb, true)
	switch op {
	case token.LSS:
		return lt
	case token.LEQ:
		return le
	case token.GTR:
		return tt.Not(le)
	case token.GEQ:
		return tt.Not(lt)
	}
	panic(fmt.Sprintf("stringBinop: %s", op))
}

// bytesLess builds x < y (or x <= y) lexicographically for byte sequences of concrete lengths.
func (ex *Exec) bytesLess(x, y []*Term, orEq bool) *Term {
	tt := ex.tt
	n := len(x)
	if len(y) < n {
		n = len(y)
	}
	// result if all first n bytes equal:
	var tail *Term
	switch {
	case len(x) < len(y):
		tail = tt.Bool(true)
	case len(x) > len(y):
		tail = tt.Bool(false)
	default:
		tail = tt.Bool(orEq)
	}
	r := tail
	for i := n - 1; i >= 0; i-- {
		r = tt.Ite(tt.Eq(x[i], y[i]), r, tt.Cmp(OpULt, x[i], y[i]))
	}
	return r
}

// equals compares two values of static type t, returning bool or *Term.
func (fr *frame) equals(t types.Type, x, y value) value {
	tt := fr.ex.tt
	and := func(a, b value) value {
		ab, aok := a.(bool)
		bb, bok := b.(bool)
		switch {
		case aok && bok:
			return ab && bb
		case aok:
			if !ab {
				return false
			}
			return b
		case bok:
			if !bb {
				return false
			}
			return a
		}
		return tt.And(a.(*Term), b.(*Term))
	}
	switch x := x.(type) {
	case bool:
		if yb, ok := y.(bool); ok {
			return x == yb
		}
		return tt.Eq(tt.Bool(x), y.(*Term))
	case uint64:
		if yc, ok := y.(uint64); ok {
			return x == yc
		}
		yt := y.(*Term)
		return tt.Eq(tt.BV(x, yt.W), yt)
	case float64:
		if yc, ok := y.(float64); ok {
			return x == yc
		}
		return tt.FCmp(OpFEq, tt.FP(x), y.(*Term))
	case *Term:
		yt := fr.ex.liftW(y, x.W)
		if x.W == SFP {
			return tt.FCmp(OpFEq, x, yt)
		}
		return tt.Eq(x, yt)
	case string:
		if ys, ok := y.(string); ok {
			return x == ys
		}
		return fr.ex.strEq(x, y)
	case *SymStr:
		return fr.ex.strEq(x, y)
	case *value:
		return x == y.(*value)
	case *engErr:
		ye, ok := y.(*engErr)
		return ok && x == ye
	case *sliceV, *mapV, *ssa.Function, *closure, *ssa.Builtin:
		// only comparable to nil
		return isNilRef(x) && isNilRef(y)
	case structure:
		ys := y.(structure)
		st := t.Underlying().(*types.Struct)
		var r value = true
		for i := range x {
			if st.Field(i).Name() == "_" {
				continue
			}
			r = and(r, fr.equals(st.Field(i).Type(), x[i], ys[i]))
		}
		return r
	case array:
		ya := y.(array)
		et := t.Underlying().(*types.Array).Elem()
		var r value = true
		for i := range x {
			r = and(r, fr.equals(et, x[i], ya[i]))
		}
		return r
	case iface:
		yi := y.(iface)
		if x.t == nil || yi.t == nil {
			return x.t == nil && yi.t == nil
		}
		if !types.Identical(x.t, yi.t) {
			return false
		}
		if !types.Comparable(x.t) {
			rtPanic("comparing uncomparable type " + x.t.String())
		}
		return fr.equals(x.t, x.v, yi.v)
	}
	panic(fmt.Sprintf("equals: unexpected %T (type %s)", x, t))
}

func isNilRef(v value) bool {
	switch v := v.(type) {
	case *sliceV:
		return v == nil
	case *mapV:
		return v == nil
	case *ssa.Function:
		return v == nil
	case *closure:
		return v == nil
	case *value:
		return v == nil
	case *ssa.Builtin:
		return false
	}
	return false
}

// strEq compares strings with symbolic parts.
func (ex *Exec) strEq(x, y value) value {
	tt := ex.tt
	xb, ok1 := ex.byteTerms(x)
	yb, ok2 := ex.byteTerms(y)
	if ok1 && ok2 {
		if len(xb) != len(yb) {
			return false
		}
		r := tt.Bool(true)
		for i := range xb {
			r = tt.And(r, tt.Eq(xb[i], yb[i]))
		}
		if r.IsConst() {
			return r.C != 0
		}
		return r
	}
	// rendered segments: equal structure ⇒ equal iff arguments equal (renderers are injective); otherwise undecided
	xs, ys := strSegs(x), strSegs(y)
	if len(xs) == len(ys) {
		r := tt.Bool(true)
		same := true
		for i := range xs {
			if xs[i].K != ys[i].K {
				same = false
				break
			}
			if xs[i].K == segLit {
				if xs[i].S != ys[i].S {
					same = false
					break
				}
				continue
			}
			if xs[i].K == segFlt {
				// same float renders the same; different floats render differently except NaN payloads
				r = tt.And(r, tt.Or(tt.FCmp(OpFEq, xs[i].T, ys[i].T), tt.And(tt.FPred(OpFIsNaN, xs[i].T), tt.FPred(OpFIsNaN, ys[i].T))))
				continue
			}
			r = tt.And(r, tt.Eq(xs[i].T, ys[i].T))
		}
		if same {
			if r.IsConst() {
				return r.C != 0
			}
			return r
		}
	}
	// differently shaped strings: decided when their literal prefixes or suffixes already conflict, or when one side is
	// a pure literal that cannot contain the other side's fixed parts
	litPrefix := func(segs []Seg) string {
		p := ""
		for _, sg := range segs {
			if sg.K != segLit {
				break
			}
			p += sg.S
		}
		return p
	}
	litSuffix := func(segs []Seg) string {
		p := ""
		for i := len(segs) - 1; i >= 0; i-- {
			if segs[i].K != segLit {
				break
			}
			p = segs[i].S + p
		}
		return p
	}
	allLit := func(segs []Seg) bool {
		for _, sg := range segs {
			if sg.K != segLit {
				return false
			}
		}
		return true
	}
	px, py := litPrefix(xs), litPrefix(ys)
	n := len(px)
	if len(py) < n {
		n = len(py)
	}
	if px[:n] != py[:n] {
		return false
	}
	sx, sy := litSuffix(xs), litSuffix(ys)
	n = len(sx)
	if len(sy) < n {
		n = len(sy)
	}
	if sx[len(sx)-n:] != sy[len(sy)-n:] {
		return false
	}
	// a pure literal shorter than the other side's fixed text (every symbolic segment renders at least one byte)
	minLen := func(segs []Seg) int {
		l := 0
		for _, sg := range segs {
			if sg.K == segLit {
				l += len(sg.S)
			} else {
				l++
			}
		}
		return l
	}
	if allLit(xs) && len(px) < minLen(ys) || allLit(ys) && len(py) < minLen(xs) {
		return false
	}
	panic(pathEnd{kind: endUnsupported, msg: "equality of differently shaped symbolic strings"})
}

func (fr *frame) unop(instr *ssa.UnOp, x value) value {
	tt := fr.ex.tt
	switch instr.Op {
	case token.ARROW:
		panic(pathEnd{kind: endUnsupported, msg: "channel receive"})
	case token.SUB:
		switch x := x.(type) {
		case uint64:
			return (-x) & mask(fr.sz.bits(instr.X.Type()))
		case float64:
			return -x
		case *Term:
			if x.W == SFP {
				return tt.FUn(OpFNeg, x)
			}
			return tt.Un(OpNeg, x)
		}
	case token.MUL:
		if ref, ok := x.(*symRef); ok {
			// concrete integer tables need the element width: lift through the static type
			return fr.loadSymRefTyped(ref, deref(instr.X.Type()))
		}
		p := x.(*value)
		if p == nil {
			rtPanic("invalid memory address or nil pointer dereference")
		}
		return load(p)
	case token.NOT:
		return fr.not(x)
	case token.XOR:
		switch x := x.(type) {
		case uint64:
			return ^x & mask(fr.sz.bits(instr.X.Type()))
		case *Term:
			return tt.Un(OpNot, x)
		}
	}
	panic(fmt.Sprintf("unop %s on %T", instr.Op, x))
}

// conv implements ssa.Convert.
func (fr *frame) conv(tdst, tsrc types.Type, x value) value {
	ud, us := tdst.Underlying(), tsrc.Underlying()
	tt := fr.ex.tt
	// string <-> slices
	switch ud := ud.(type) {
	case *types.Slice:
		if isString(us) {
			eb, ok := ud.Elem().Underlying().(*types.Basic)
			if !ok {
				break
			}
			switch eb.Kind() {
			case types.Uint8:
				bs, ok := fr.ex.byteTerms(x)
				if !ok {
					panic(pathEnd{kind: endUnsupported, msg: "[]byte of a string with rendered segments"})
				}
				vals := make([]value, len(bs))
				for i, b := range bs {
					if b.IsConst() {
						vals[i] = b.C
					} else {
						vals[i] = b
					}
				}
				return newSliceOf(vals)
			case types.Int32:
				s, ok := x.(string)
				if !ok {
					panic(pathEnd{kind: endUnsupported, msg: "[]rune of a symbolic string"})
				}
				var vals []value
				for _, r := range s {
					vals = append(vals, uint64(uint32(r)))
				}
				return newSliceOf(vals)
			}
		}
	case *types.Basic:
		if ud.Info()&types.IsString != 0 {
			switch us := us.(type) {
			case *types.Slice:
				s := x.(*sliceV)
				n := sliceLen(s)
				eb := us.Elem().Underlying().(*types.Basic)
				if eb.Kind() == types.Uint8 {
					vals := make([]value, n)
					for i := 0; i < n; i++ {
						vals[i] = *s.at(i)
					}
					return strFromBytes(vals)
				}
				// []rune
				var segs []Seg
				for i := 0; i < n; i++ {
					switch r := (*s.at(i)).(type) {
					case uint64:
						segs = append(segs, Seg{K: segLit, S: string(rune(int32(r)))})
					case *Term:
						segs = append(segs, Seg{K: segRune, T: r})
					}
				}
				return mkStr(segs)
			case *types.Basic:
				if us.Info()&types.IsInteger != 0 {
					// string(rune)
					w := fr.sz.bits(tsrc)
					switch v := x.(type) {
					case uint64:
						var iv int64
						if isSigned(tsrc) {
							iv = sx(v, w)
						} else {
							iv = int64(v)
							if v > math.MaxInt32 {
								iv = utf8.RuneError
							}
						}
						if iv < 0 || iv > utf8.MaxRune {
							iv = utf8.RuneError
						}
						return string(rune(iv))
					case *Term:
						return fr.ex.runeString(tt.Resize(v, 32, isSigned(tsrc)), v, isSigned(tsrc))
					}
				}
				if us.Info()&types.IsString != 0 {
					return x
				}
			}
		}
	}
	// unsafe.Pointer and pointers
	if _, ok := ud.(*types.Pointer); ok {
		return x
	}
	db, ok1 := ud.(*types.Basic)
	sb, ok2 := us.(*types.Basic)
	if !ok1 || !ok2 {
		panic(fmt.Sprintf("conv: unsupported %s -> %s", tsrc, tdst))
	}
	if db.Kind() == types.UnsafePointer || sb.Kind() == types.UnsafePointer {
		return x
	}
	switch {
	case sb.Info()&types.IsInteger != 0 && db.Info()&types.IsInteger != 0:
		sw, dw := fr.sz.bits(tsrc), fr.sz.bits(tdst)
		switch v := x.(type) {
		case uint64:
			if isSigned(tsrc) {
				return uint64(sx(v, sw)) & mask(dw)
			}
			return v & mask(dw)
		case *Term:
			return tt.Resize(v, dw, isSigned(tsrc))
		}
	case sb.Info()&types.IsInteger != 0 && db.Info()&types.IsFloat != 0:
		sw := fr.sz.bits(tsrc)
		switch v := x.(type) {
		case uint64:
			var f float64
			if isSigned(tsrc) {
				f = float64(sx(v, sw))
			} else {
				f = float64(v)
			}
			if db.Kind() == types.Float32 {
				f = float64(float32(f))
			}
			return f
		case *Term:
			if db.Kind() == types.Float32 {
				panic(pathEnd{kind: endUnsupported, msg: "symbolic float32"})
			}
			return tt.I2F(v, isSigned(tsrc))
		}
	case sb.Info()&types.IsFloat != 0 && db.Info()&types.IsInteger != 0:
		dw := fr.sz.bits(tdst)
		switch v := x.(type) {
		case float64:
			if fr.sz.bits(types.Typ[types.Int]) == 32 {
				return f2iConcrete386(v, dw, isSigned(tdst))
			}
			return f2iConcrete(v, dw, isSigned(tdst))
		case *Term:
			if fr.sz.bits(types.Typ[types.Int]) == 32 {
				return fr.ex.f2i386(v, dw, isSigned(tdst))
			}
			r := tt.F2I(v, dw, isSigned(tdst))
			if r.IsConst() {
				return r.C
			}
			return r
		}
	case sb.Info()&types.IsFloat != 0 && db.Info()&types.IsFloat != 0:
		switch v := x.(type) {
		case float64:
			if db.Kind() == types.Float32 {
				return float64(float32(v))
			}
			return v
		case *Term:
			if db.Kind() == types.Float32 || sb.Kind() == types.Float32 {
				panic(pathEnd{kind: endUnsupported, msg: "symbolic float32"})
			}
			return v
		}
	}
	panic(fmt.Sprintf("conv: unsupported %s -> %s (%T)", tsrc, tdst, x))
}

// f2iConcrete386: the reference side only claims in-range conversions (Go leaves the rest implementation-defined);
// in range it is plain truncation.
func f2iConcrete386(f float64, n int, signed bool) uint64 {
	return f2iConcrete(f, n, signed)
}

// f2i386 converts on the reference side. Out-of-range inputs are implementation-defined in Go; the reference
// assumes them away (the path is cut with an assumption, recorded in the statistics).
func (ex *Exec) f2i386(f *Term, n int, signed bool) value {
	tt := ex.tt
	if v, ok := tt.intOf(f); ok {
		lo, hi := intRange(n, signed)
		in := tt.And(tt.Cmp(OpSLe, tt.BV(uint64(lo), 64), v), tt.Cmp(OpSLe, v, tt.BV(uint64(hi), 64)))
		if n == 64 {
			in = tt.Bool(true)
		}
		ex.assumeRef(in, "float→int operand in range of the target type")
		return tt.Extract(v, n-1, 0)
	}
	lo, hi := intRange(n, signed)
	in := tt.And(tt.Not(tt.FPred(OpFIsNaN, f)), tt.And(tt.mk(OpFLt, SBool, 0, 0, tt.FP(float64(lo)-1), f), tt.mk(OpFLt, SBool, 0, 0, f, tt.FP(float64(hi)+1))))
	ex.assumeRef(in, "float→int operand in range of the target type")
	if signed {
		return tt.Extract(tt.mk(OpF2SB, 64, 0, 0, f), n-1, 0)
	}
	if n == 64 {
		return tt.mk(OpF2UB, 64, 0, 0, f)
	}
	return tt.Extract(tt.mk(OpF2SB, 64, 0, 0, f), n-1, 0)
}

func intRange(n int, signed bool) (int64, int64) {
	if signed {
		if n >= 64 {
			return math.MinInt64, math.MaxInt64
		}
		return -(1 << uint(n-1)), 1<<uint(n-1) - 1
	}
	if n >= 63 {
		return 0, math.MaxInt64
	}
	return 0, 1<<uint(n) - 1
}

// runeString builds string(rune) for a symbolic rune: valid runes encode as UTF-8, others as U+FFFD.
func (ex *Exec) runeString(r32 *Term, orig *Term, signed bool) value {
	tt := ex.tt
	// valid iff 0 <= r <= 0x10FFFF and not a surrogate; for unsigned sources wider than 31 bits anything above MaxInt32 is invalid
	valid := tt.And(tt.Cmp(OpULe, r32, tt.BV(0x10FFFF, 32)), tt.Not(tt.And(tt.Cmp(OpULe, tt.BV(0xD800, 32), r32), tt.Cmp(OpULe, r32, tt.BV(0xDFFF, 32)))))
	if orig.W > 32 {
		hi := tt.Extract(orig, orig.W-1, 32)
		var fits *Term
		if signed {
			fits = tt.Eq(tt.SExt(r32, orig.W-32), orig)
		} else {
			fits = tt.Eq(hi, tt.BV(0, orig.W-32))
		}
		valid = tt.And(valid, fits)
	}
	if !ex.branch(valid, "rune valid") {
		return "�"
	}
	// fork on the encoded length
	switch {
	case ex.branch(tt.Cmp(OpULt, r32, tt.BV(0x80, 32)), "rune < 0x80"):
		return mkStr([]Seg{{K: segByte, T: tt.Extract(r32, 7, 0)}})
	case ex.branch(tt.Cmp(OpULt, r32, tt.BV(0x800, 32)), "rune < 0x800"):
		b0 := tt.Bin(OpOr, tt.BV(0xC0, 8), tt.Extract(tt.Bin(OpLShr, r32, tt.BV(6, 32)), 7, 0))
		b1 := tt.Bin(OpOr, tt.BV(0x80, 8), tt.Bin(OpAnd, tt.Extract(r32, 7, 0), tt.BV(0x3F, 8)))
		return mkStr([]Seg{{K: segByte, T: b0}, {K: segByte, T: b1}})
	case ex.branch(tt.Cmp(OpULt, r32, tt.BV(0x10000, 32)), "rune < 0x10000"):
		b0 := tt.Bin(OpOr, tt.BV(0xE0, 8), tt.Extract(tt.Bin(OpLShr, r32, tt.BV(12, 32)), 7, 0))
		b1 := tt.Bin(OpOr, tt.BV(0x80, 8), tt.Bin(OpAnd, tt.Extract(tt.Bin(OpLShr, r32, tt.BV(6, 32)), 7, 0), tt.BV(0x3F, 8)))
		b2 := tt.Bin(OpOr, tt.BV(0x80, 8), tt.Bin(OpAnd, tt.Extract(r32, 7, 0), tt.BV(0x3F, 8)))
		return mkStr([]Seg{{K: segByte, T: b0}, {K: segByte, T: b1}, {K: segByte, T: b2}})
	default:
		b0 := tt.Bin(OpOr, tt.BV(0xF0, 8), tt.Extract(tt.Bin(OpLShr, r32, tt.BV(18, 32)), 7, 0))
		b1 := tt.Bin(OpOr, tt.BV(0x80, 8), tt.Bin(OpAnd, tt.Extract(tt.Bin(OpLShr, r32, tt.BV(12, 32)), 7, 0), tt.BV(0x3F, 8)))
		b2 := tt.Bin(OpOr, tt.BV(0x80, 8), tt.Bin(OpAnd, tt.Extract(tt.Bin(OpLShr, r32, tt.BV(6, 32)), 7, 0), tt.BV(0x3F, 8)))
		b3 := tt.Bin(OpOr, tt.BV(0x80, 8), tt.Bin(OpAnd, tt.Extract(r32, 7, 0), tt.BV(0x3F, 8)))
		return mkStr([]Seg{{K: segByte, T: b0}, {K: segByte, T: b1}, {K: segByte, T: b2}, {K: segByte, T: b3}})
	}
}

// ---------------------------------------------------------------------------------------------
// indexes, slices

// concIndex turns an index/length operand into a concrete int, checking 0 <= v < limit (limit<0: only v >= 0) and
// forking on symbolic values.  what names the run-time error raised when out of range.
func (fr *frame) indexVal(v value, t types.Type) (int64, *Term) {
	w := fr.sz.bits(t)
	switch v := v.(type) {
	case uint64:
		if isSigned(t) {
			return sx(v, w), nil
		}
		if v > math.MaxInt64 {
			return math.MaxInt64, nil
		}
		return int64(v), nil
	case *Term:
		return 0, fr.ex.tt.Resize(v, 64, isSigned(t))
	}
	panic(fmt.Sprintf("indexVal: %T", v))
}

// checkIndex returns a concrete in-range index or raises the run-time panic.
func (fr *frame) checkIndex(v value, t types.Type, n int) int {
	c, sym := fr.indexVal(v, t)
	if sym == nil {
		if c < 0 || c >= int64(n) {
			rtPanic(fmt.Sprintf("index out of range [%d] with length %d", c, n))
		}
		return int(c)
	}
	tt := fr.ex.tt
	in := tt.Cmp(OpULt, sym, tt.BV(uint64(n), 64))
	if !fr.ex.branch(in, "index in range") {
		// the reported index is whatever the model says; render symbolically
		panic(targetPanic{v: runtimeError(fmt.Sprintf("index out of range [%s] with length %d", "?", n))})
	}
	return int(fr.ex.concretize(sym, n, "index"))
}

func (fr *frame) doSlice(instr *ssa.Slice, x, lo, hi, max value) value {
	var length, capacity int
	var str value
	var sl *sliceV
	var arrPtr *value
	switch x := x.(type) {
	case string, *SymStr:
		bs, ok := fr.ex.byteTerms(x)
		if !ok {
			panic(pathEnd{kind: endUnsupported, msg: "slicing a string with rendered segments"})
		}
		length, capacity = len(bs), len(bs)
		str = x
	case *sliceV:
		sl = x
		length, capacity = sliceLen(x), sliceCap(x)
	case *value: // *array
		if x == nil {
			rtPanic("invalid memory address or nil pointer dereference")
		}
		arrPtr = x
		a := (*x).(array)
		length, capacity = len(a), len(a)
	default:
		panic(fmt.Sprintf("slice of %T", x))
	}
	bound := func(v value, vinstr ssa.Value, def int, limit int) int {
		if v == nil {
			return def
		}
		c, sym := fr.indexVal(v, vinstr.Type())
		if sym == nil {
			if c < 0 || c > int64(limit) {
				return -1
			}
			return int(c)
		}
		tt := fr.ex.tt
		in := tt.Cmp(OpULe, sym, tt.BV(uint64(limit), 64))
		if !fr.ex.branch(in, "slice bound in range") {
			return -1
		}
		return int(fr.ex.concretize(sym, limit+1, "slice bound"))
	}
	limit := capacity
	if str != nil {
		limit = length
	}
	m := capacity
	if max != nil {
		m = bound(max, instr.Max, capacity, capacity)
		if m < 0 {
			rtPanic(fmt.Sprintf("slice bounds out of range [::%s] with capacity %d", "?", capacity))
		}
		limit = m
	}
	h := bound(hi, instr.High, length, limit)
	if h < 0 {
		if str != nil {
			rtPanic(fmt.Sprintf("slice bounds out of range [:%s] with length %d", showIdx(hi, instr.High, fr), length))
		}
		rtPanic(fmt.Sprintf("slice bounds out of range [:%s] with capacity %d", showIdx(hi, instr.High, fr), capacity))
	}
	l := bound(lo, instr.Low, 0, h)
	if l < 0 {
		rtPanic(fmt.Sprintf("slice bounds out of range [%s:%d]", showIdx(lo, instr.Low, fr), h))
	}
	switch {
	case str != nil:
		bs, _ := fr.ex.byteTerms(str)
		if s, ok := str.(string); ok {
			return s[l:h]
		}
		vals := make([]value, 0, h-l)
		for _, b := range bs[l:h] {
			if b.IsConst() {
				vals = append(vals, b.C)
			} else {
				vals = append(vals, b)
			}
		}
		return strFromBytes(vals)
	case arrPtr != nil:
		a := (*arrPtr).(array)
		return &sliceV{b: &backing{cells: a}, off: l, len: h - l, cap: m - l}
	default:
		if sl == nil {
			return (*sliceV)(nil)
		}
		return &sliceV{b: sl.b, off: sl.off + l, len: h - l, cap: m - l}
	}
}

func showIdx(v value, iv ssa.Value, fr *frame) string {
	if v == nil {
		return ""
	}
	if c, ok := v.(uint64); ok {
		return fmt.Sprint(sx(c, fr.sz.bits(iv.Type())))
	}
	return "?"
}

// growCap mirrors runtime.growslice's capacity computation (go1.23) including size-class rounding.
func growCap(oldCap, newLen int, elemSize int64) int {
	newcap := oldCap
	doublecap := newcap + newcap
	if newLen > doublecap {
		newcap = newLen
	} else {
		const threshold = 256
		if oldCap < threshold {
			newcap = doublecap
		} else {
			for {
				newcap += (newcap + 3*threshold) >> 2
				if uint(newcap) >= uint(newLen) {
					break
				}
			}
		}
	}
	if elemSize == 0 {
		return newcap
	}
	mem := roundupsize(uintptr(int64(newcap) * elemSize))
	return int(int64(mem) / elemSize)
}

var sizeClasses = [...]uint16{0, 8, 16, 24, 32, 48, 64, 80, 96, 112, 128, 144, 160, 176, 192, 208, 224, 240, 256, 288, 320, 352, 384, 416, 448, 480, 512, 576, 640, 704, 768, 896, 1024, 1152, 1280, 1408, 1536, 1792, 2048, 2304, 2688, 3072, 3200, 3456, 4096, 4864, 5376, 6144, 6528, 6784, 6912, 8192, 9472, 9728, 10240, 10880, 12288, 13568, 14336, 16384, 18432, 19072, 20480, 21760, 24576, 27264, 28672, 32768}

func roundupsize(size uintptr) uintptr {
	if size <= 32768-8 { // malloc header accounting only matters for pointerful >512B objects; see note
		for _, c := range sizeClasses {
			if uintptr(c) >= size {
				return uintptr(c)
			}
		}
	}
	const pageSize = 8192
	if size+pageSize < size {
		return size
	}
	return (size + pageSize - 1) &^ (pageSize - 1)
}

// doAppend implements append(s, elems...) for slices (elems is a slice value, or a string for []byte).
func (fr *frame) doAppend(s *sliceV, add []value, elemSize int64, hasPtr bool) *sliceV {
	if len(add) == 0 {
		return s
	}
	oldLen, oldCap := sliceLen(s), sliceCap(s)
	newLen := oldLen + len(add)
	if newLen <= oldCap {
		for i, v := range add {
			store(&s.b.cells[s.off+oldLen+i], v)
		}
		return &sliceV{b: s.b, off: s.off, len: newLen, cap: oldCap}
	}
	nc := growCapHdr(oldCap, newLen, elemSize, hasPtr)
	cells := make([]value, nc)
	for i := 0; i < oldLen; i++ {
		cells[i] = copyVal(*s.at(i))
	}
	for i, v := range add {
		cells[oldLen+i] = copyVal(v)
	}
	// remaining cells get a lazily typed zero: filled by the caller through fillZero
	return &sliceV{b: &backing{cells: cells}, len: newLen, cap: nc}
}

// growCapHdr accounts for the malloc header go1.22+ places in front of pointerful objects between 512B and 32KB.
func growCapHdr(oldCap, newLen int, elemSize int64, hasPtr bool) int {
	newcap := oldCap
	doublecap := newcap + newcap
	if newLen > doublecap {
		newcap = newLen
	} else {
		const threshold = 256
		if oldCap < threshold {
			newcap = doublecap
		} else {
			for {
				newcap += (newcap + 3*threshold) >> 2
				if uint(newcap) >= uint(newLen) {
					break
				}
			}
		}
	}
	if elemSize == 0 {
		return newcap
	}
	size := uintptr(int64(newcap) * elemSize)
	const mallocHeaderSize = 8
	const minSizeForMallocHeader = 512
	var mem uintptr
	if hasPtr && size > minSizeForMallocHeader && size <= 32768-mallocHeaderSize {
		mem = roundupsize(size+mallocHeaderSize) - mallocHeaderSize
	} else {
		mem = roundupsize(size)
	}
	return int(int64(mem) / elemSize)
}

func hasPointers(t types.Type) bool {
	switch t := t.Underlying().(type) {
	case *types.Basic:
		return t.Info()&types.IsString != 0 || t.Kind() == types.UnsafePointer
	case *types.Struct:
		for i := 0; i < t.NumFields(); i++ {
			if hasPointers(t.Field(i).Type()) {
				return true
			}
		}
		return false
	case *types.Array:
		return t.Len() > 0 && hasPointers(t.Elem())
	}
	return true
}

// typeAssert implements ssa.TypeAssert.
func (fr *frame) typeAssert(instr *ssa.TypeAssert, itf iface) value {
	var v value
	err := ""
	if idst, ok := instr.AssertedType.Underlying().(*types.Interface); ok {
		v = itf
		if itf.t == nil {
			err = fmt.Sprintf("interface conversion: interface is nil, not %s", instr.AssertedType)
		} else if !fr.ex.implements(itf.t, idst) {
			err = fmt.Sprintf("interface conversion: %s is not %s: missing method", itf.t, instr.AssertedType)
		}
	} else if itf.t != nil && types.Identical(itf.t, instr.AssertedType) {
		v = itf.v
	} else {
		if itf.t == nil {
			err = fmt.Sprintf("interface conversion: %s is nil, not %s", instr.X.Type(), instr.AssertedType)
		} else {
			err = fmt.Sprintf("interface conversion: %s is %s, not %s", instr.X.Type(), itf.t, instr.AssertedType)
		}
	}
	if err != "" {
		if !instr.CommaOk {
			panic(targetPanic{v: typeAssertError(err)})
		}
		return tuple{zero(instr.AssertedType), false}
	}
	if instr.CommaOk {
		return tuple{v, true}
	}
	return v
}

type typeAssertError string

func (ex *Exec) implements(t types.Type, itf *types.Interface) bool {
	ms := ex.eng.methodSet(t)
	for i := 0; i < itf.NumMethods(); i++ {
		m := itf.Method(i)
		sel := ms.Lookup(m.Pkg(), m.Name())
		if sel == nil {
			return false
		}
	}
	return true
}

// ---------------------------------------------------------------------------------------------
// range iterators

type iter interface{ next(fr *frame) tuple }

type mapIter struct {
	entries []*mapEntry
	i       int
}

func (it *mapIter) next(fr *frame) tuple {
	for it.i < len(it.entries) {
		e := it.entries[it.i]
		it.i++
		if !e.dead {
			return tuple{true, e.k, copyVal(e.v)}
		}
	}
	return tuple{false, nil, nil}
}

type stringIter struct {
	s     value
	bytes []*Term
	i     int
}

func (it *stringIter) next(fr *frame) tuple {
	if s, ok := it.s.(string); ok {
		if it.i >= len(s) {
			return tuple{false, uint64(0), uint64(0)}
		}
		r, n := utf8.DecodeRuneInString(s[it.i:])
		k := it.i
		it.i += n
		return tuple{true, uint64(k) & mask(fr.sz.bits(types.Typ[types.Int])), uint64(uint32(r))}
	}
	if it.bytes == nil {
		bs, ok := fr.ex.byteTerms(it.s)
		if !ok {
			panic(pathEnd{kind: endUnsupported, msg: "range over a string with rendered segments"})
		}
		it.bytes = bs
		if len(bs) == 0 {
			it.bytes = []*Term{}
		}
	}
	if it.i >= len(it.bytes) {
		return tuple{false, uint64(0), uint64(0)}
	}
	r, n := fr.ex.decodeRune(it.bytes[it.i:])
	k := it.i
	it.i += n
	return tuple{true, uint64(k), r}
}

// decodeRune models utf8.DecodeRune / the runtime's decoderune on symbolic bytes, forking on the byte classes.
func (ex *Exec) decodeRune(b []*Term) (value, int) {
	tt := ex.tt
	c := func(v uint64) *Term { return tt.BV(v, 8) }
	in := func(x *Term, lo, hi uint64) *Term { return tt.And(tt.Cmp(OpULe, c(lo), x), tt.Cmp(OpULe, x, c(hi))) }
	z32 := func(x *Term) *Term { return tt.ZExt(x, 24) }
	sh := func(x *Term, n uint64) *Term { return tt.Bin(OpShl, x, tt.BV(n, 32)) }
	and := func(x *Term, m uint64) *Term { return tt.Bin(OpAnd, x, tt.BV(m, 32)) }
	or := func(x, y *Term) *Term { return tt.Bin(OpOr, x, y) }
	simp := func(t *Term) value {
		if t.IsConst() {
			return t.C
		}
		return t
	}
	bad := func() (value, int) { return uint64(utf8.RuneError), 1 }
	b0 := b[0]
	if ex.branch(tt.Cmp(OpULt, b0, c(0x80)), "utf8: ascii") {
		return simp(z32(b0)), 1
	}
	// lead byte classes per unicode/utf8 tables
	switch {
	case ex.branch(in(b0, 0xC2, 0xDF), "utf8: 2-byte lead"):
		if len(b) < 2 || !ex.branch(in(b[1], 0x80, 0xBF), "utf8: cont1") {
			return bad()
		}
		return simp(or(sh(and(z32(b0), 0x1F), 6), and(z32(b[1]), 0x3F))), 2
	case ex.branch(in(b0, 0xE0, 0xEF), "utf8: 3-byte lead"):
		if len(b) < 2 {
			return bad()
		}
		// second byte range depends on lead
		lo := tt.Ite(tt.Eq(b0, c(0xE0)), c(0xA0), c(0x80))
		hi := tt.Ite(tt.Eq(b0, c(0xED)), c(0x9F), c(0xBF))
		ok1 := tt.And(tt.Cmp(OpULe, lo, b[1]), tt.Cmp(OpULe, b[1], hi))
		if !ex.branch(ok1, "utf8: cont1 of 3") {
			return bad()
		}
		if len(b) < 3 || !ex.branch(in(b[2], 0x80, 0xBF), "utf8: cont2 of 3") {
			return bad()
		}
		return simp(or(or(sh(and(z32(b0), 0x0F), 12), sh(and(z32(b[1]), 0x3F), 6)), and(z32(b[2]), 0x3F))), 3
	case ex.branch(in(b0, 0xF0, 0xF4), "utf8: 4-byte lead"):
		if len(b) < 2 {
			return bad()
		}
		lo := tt.Ite(tt.Eq(b0, c(0xF0)), c(0x90), c(0x80))
		hi := tt.Ite(tt.Eq(b0, c(0xF4)), c(0x8F), c(0xBF))
		ok1 := tt.And(tt.Cmp(OpULe, lo, b[1]), tt.Cmp(OpULe, b[1], hi))
		if !ex.branch(ok1, "utf8: cont1 of 4") {
			return bad()
		}
		if len(b) < 3 || !ex.branch(in(b[2], 0x80, 0xBF), "utf8: cont2 of 4") {
			return bad()
		}
		if len(b) < 4 || !ex.branch(in(b[3], 0x80, 0xBF), "utf8: cont3 of 4") {
			return bad()
		}
		return simp(or(or(or(sh(and(z32(b0), 0x07), 18), sh(and(z32(b[1]), 0x3F), 12)), sh(and(z32(b[2]), 0x3F), 6)), and(z32(b[3]), 0x3F))), 4
	}
	return bad()
}

// loadSymRefTyped is loadSymRef with the element type known, so that tables of concrete integers can be merged.
func (fr *frame) loadSymRefTyped(ref *symRef, t types.Type) value {
	if isInteger(t) {
		w := fr.sz.bits(t)
		vals := make([]value, len(ref.cells))
		for i, c := range ref.cells {
			switch v := (*c).(type) {
			case uint64:
				vals[i] = fr.ex.tt.BV(v, w)
			default:
				vals[i] = v
			}
		}
		if v, ok := fr.ex.mergeByIndex(ref.idx, vals); ok {
			return v
		}
	}
	return fr.ex.loadSymRef(ref)
}
