package main

import (
	"fmt"
	"os"
	"time"

	"golang.org/x/tools/go/packages"
	"golang.org/x/tools/go/ssa"
	"golang.org/x/tools/go/ssa/ssautil"
)

func main() {
	t0 := time.Now()
	cfg := &packages.Config{Mode: packages.LoadAllSyntax, Dir: "/repo", BuildFlags: []string{"-tags=verif"},
		Env:     append(os.Environ(), "GOFLAGS=-mod=mod", "GOPROXY=off"),
		Overlay: map[string][]byte{"/repo/zz_verif_h.go": []byte("//go:build verif\npackage goatlang\nfunc VerifX() int { return len(symbols) }\n")}}
	pkgs, err := packages.Load(cfg, ".")
	if err != nil {
		panic(err)
	}
	fmt.Println("load", time.Since(t0), len(pkgs), pkgs[0].Errors)
	prog, spkgs := ssautil.AllPackages(pkgs, ssa.InstantiateGenerics)
	prog.Build()
	fmt.Println("build", time.Since(t0))
	fmt.Println(spkgs[0].Func("VerifX"))
}
