// Command gosx drives the solver-based checks of /verif: ./gosx check <ID> [--tier quick|thorough]
package main

import (
	"flag"
	"fmt"
	"os"
	"strconv"
)

type checkFn func(tier string, seed int64) int

var checks = map[string]checkFn{}

func main() {
	if len(os.Args) < 2 {
		fmt.Fprintln(os.Stderr, "usage: gosx check <ID> [--tier quick|thorough] | selftest | replay <file>")
		os.Exit(2)
	}
	switch os.Args[1] {
	case "check":
		fs := flag.NewFlagSet("check", flag.ExitOnError)
		tier := fs.String("tier", "", "quick|thorough")
		if len(os.Args) < 3 {
			fatal(fmt.Errorf("check needs a property id"))
		}
		id := os.Args[2]
		fs.Parse(os.Args[3:])
		if *tier == "" {
			*tier = os.Getenv("VERIF_TIER")
		}
		if *tier == "" {
			*tier = "quick"
		}
		seed := int64(1)
		if s := os.Getenv("VERIF_SEED"); s != "" {
			if v, err := strconv.ParseInt(s, 10, 64); err == nil {
				seed = v
			}
		}
		f := checks[id]
		if f == nil {
			fatal(fmt.Errorf("no check for property %s", id))
		}
		os.Exit(f(*tier, seed))
	case "selftest":
		os.Exit(selftest())
	case "replay":
		if len(os.Args) < 3 {
			fatal(fmt.Errorf("replay needs a file"))
		}
		os.Exit(replayFile(os.Args[2]))
	default:
		fatal(fmt.Errorf("unknown command %q", os.Args[1]))
	}
}
