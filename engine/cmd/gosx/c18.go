package main

import (
	"fmt"
	"math/rand"
	"strings"
	"sync"

	"verif/engine/gosx"
)

func init() { checks["C18"] = checkC18 }

type c18Prog struct {
	id      string
	stmts   []string
	globals []string
	nin     int
}

// genC18 builds a top-level statement sequence; names are declared before use.
func genC18(seed int64, n int) *c18Prog {
	rng := rand.New(rand.NewSource(seed))
	p := &c18Prog{id: fmt.Sprintf("seq%d", seed), nin: 2}
	ints := []string{"in0", "in1"}
	var funcs, ptrs []string
	hasFmt, hasType, hasTot, hasInit := false, false, false, false
	newName := func(prefix string) string {
		return fmt.Sprintf("%s%d", prefix, len(p.globals))
	}
	if seed%5 == 0 {
		// directed prefix (every fifth sequence): a global, then a top-level block whose header redeclares its name,
		// then a top-level use of the global — the forms that random choice reaches only rarely
		g := newName("g")
		p.stmts = append(p.stmts, "tot := 0", fmt.Sprintf("%s := in0 + 1", g))
		p.globals = append(p.globals, "tot", g)
		ints = append(ints, g)
		hasTot = true
		switch (seed / 5) % 3 {
		case 0:
			p.stmts = append(p.stmts, fmt.Sprintf("for %s := 0; %s < 3; %s++ {\n\ttot += %s\n}", g, g, g, g))
		case 1:
			p.stmts = append(p.stmts, fmt.Sprintf("if %s := in1 + 1; %s > 2 {\n\ttot += %s\n}", g, g, g))
		default:
			p.stmts = append(p.stmts, fmt.Sprintf("for %s, e := range []int{in1, 7} {\n\ttot += %s * e\n}", g, g))
		}
		p.stmts = append(p.stmts, fmt.Sprintf("tot += %s", g))
		if n < 4 {
			n = 4
		}
	}
	if seed%5 != 0 && rng.Intn(3) == 0 {
		// a package clause opens the program (valid in a whole program and in the first chunk)
		p.stmts = append(p.stmts, "package main", `import "fmt"`)
		hasFmt = true
		n += 2
		if n > 7 {
			n = 7
		}
	}
	if rng.Intn(4) == 0 {
		// packages with state: report imports store, so a later chunk importing report loads store again
		p.stmts = append(p.stmts, `import "store"`, "store.Put(in0)", `import "report"`, "rs := report.Show()")
		p.globals = append(p.globals, "rs")
		ints = append(ints, "rs")
		if rng.Intn(2) == 0 {
			p.stmts = append(p.stmts, "store.Put(in1)", "gs := store.Get()")
			p.globals = append(p.globals, "gs")
			ints = append(ints, "gs")
		}
		n += len(p.stmts) - 2
		if n > 7 {
			n = 7
		}
	}
	for len(p.stmts) < n {
		last := len(p.stmts) == n-1
		k := rng.Intn(12)
		if rng.Intn(3) == 0 {
			k = 13 + rng.Intn(3)
		}
		if rng.Intn(6) == 0 {
			k = 16
		}
		if rng.Intn(7) == 0 {
			k = 17
		}
		if !hasInit && rng.Intn(8) == 0 {
			k = 18
		}
		if last && rng.Intn(2) == 0 {
			k = 12
		}
		x := ints[rng.Intn(len(ints))]
		y := ints[rng.Intn(len(ints))]
		switch k {
		case 0:
			v := newName("v")
			p.stmts = append(p.stmts, fmt.Sprintf("%s := %s + %d", v, x, rng.Intn(5)))
			p.globals = append(p.globals, v)
			ints = append(ints, v)
		case 1:
			v := newName("w")
			t := []string{"int", "byte", "float64"}[rng.Intn(3)]
			p.stmts = append(p.stmts, fmt.Sprintf("var %s %s = %d", v, t, 3+rng.Intn(250)))
			p.globals = append(p.globals, v)
			if t == "int" {
				ints = append(ints, v)
			}
		case 2:
			if x == "in0" || x == "in1" {
				continue
			}
			p.stmts = append(p.stmts, fmt.Sprintf("%s = %s * 2 + %s", x, x, y))
		case 3:
			if x == "in0" || x == "in1" {
				continue
			}
			p.stmts = append(p.stmts, fmt.Sprintf("%s += %s", x, y))
		case 4:
			if x == "in0" || x == "in1" {
				continue
			}
			p.stmts = append(p.stmts, fmt.Sprintf("if %s > %s {\n\t%s = 1\n} else {\n\t%s++\n}", x, y, x, x))
		case 5:
			if x == "in0" || x == "in1" {
				continue
			}
			p.stmts = append(p.stmts, fmt.Sprintf("for i := 0; i < 3; i++ {\n\t%s += i\n}", x))
		case 6:
			if !hasFmt {
				p.stmts = append(p.stmts, `import "fmt"`)
				hasFmt = true
				continue
			}
			p.stmts = append(p.stmts, fmt.Sprintf("fmt.Println(%s, %s)", x, y))
		case 7:
			f := newName("f")
			p.stmts = append(p.stmts, fmt.Sprintf("func %s(a, b int) int {\n\treturn a*%d + b\n}", f, 2+rng.Intn(3)))
			p.globals = append(p.globals, f)
			funcs = append(funcs, f)
		case 8:
			if len(funcs) == 0 {
				continue
			}
			v := newName("r")
			p.stmts = append(p.stmts, fmt.Sprintf("%s := %s(%s, %s)", v, funcs[rng.Intn(len(funcs))], x, y))
			p.globals = append(p.globals, v)
			ints = append(ints, v)
		case 9:
			if hasType {
				continue
			}
			p.stmts = append(p.stmts, "type P struct {\n\tv int\n}")
			hasType = true
		case 10:
			if !hasType {
				continue
			}
			if len(ptrs) == 0 || rng.Intn(2) == 0 {
				v := newName("p")
				p.stmts = append(p.stmts, fmt.Sprintf("%s := &P{v: %s}", v, x))
				p.globals = append(p.globals, v)
				ptrs = append(ptrs, v)
			} else {
				p.stmts = append(p.stmts, fmt.Sprintf("%s.v += %s", ptrs[rng.Intn(len(ptrs))], y))
			}
		case 13, 14, 15:
			// a block that declares locals of a particular type (local slots restart with every Eval)
			if len(p.stmts) == 0 || !strings.HasPrefix(p.stmts[0], "acc :=") {
				if len(p.stmts) > 0 {
					continue
				}
				p.stmts = append(p.stmts, "acc := in0 + 1")
				p.globals = append(p.globals, "acc")
				ints = append(ints, "acc")
				continue
			}
			x = "acc"
			switch k {
			case 13:
				p.stmts = append(p.stmts, fmt.Sprintf("for fl := 0.5; fl < 2; fl++ {\n\thalf := fl / 2\n\tif half > 0.5 {\n\t\t%s++\n\t}\n}", x))
			case 14:
				p.stmts = append(p.stmts, fmt.Sprintf("for n := 0; n < 3; n++ {\n\tq := n / 2\n\t%s += q\n}", x))
			default:
				p.stmts = append(p.stmts, fmt.Sprintf("if %s != %s {\n\tvar bb byte = 250\n\tbb += 10\n\t%s += int(bb)\n} else {\n\ts := \"ab\"\n\t%s += len(s)\n}", x, y, x, x))
			}
		case 18:
			// an init function between statements that observe the variable it changes: a sequence runs in source order
			if x == "in0" || x == "in1" {
				continue
			}
			p.stmts = append(p.stmts, fmt.Sprintf("func init() {\n\t%s = %s*10 + 1\n}", x, x), fmt.Sprintf("%s = %s + 5", x, x))
			hasInit = true
		case 17:
			// switches (tag-less and tagged), at top level and inside a function declared at top level; declarations
			// that follow must still be globals
			switch rng.Intn(3) {
			case 0:
				if x == "in0" || x == "in1" {
					continue
				}
				p.stmts = append(p.stmts, fmt.Sprintf("switch {\ncase %s > %s:\n\t%s = 1\ndefault:\n\t%s++\n}", x, y, x, x))
			case 1:
				f := newName("sg")
				p.stmts = append(p.stmts, fmt.Sprintf("func %s(v, w int) int {\n\tswitch {\n\tcase v < 0:\n\t\treturn -1\n\tcase v > w:\n\t\treturn 2\n\t}\n\treturn 1\n}", f))
				p.globals = append(p.globals, f)
				funcs = append(funcs, f)
			default:
				if x == "in0" || x == "in1" {
					continue
				}
				p.stmts = append(p.stmts, fmt.Sprintf("switch %s {\ncase 1, 2:\n\t%s += 5\ncase %s:\n\t%s = 0\n}", y, x, x, x))
			}
		case 16:
			// the header of a top-level block redeclares the name of a global: after the block the name is the global again
			if x == "in0" || x == "in1" || y == x {
				continue
			}
			if !hasTot {
				p.stmts = append(p.stmts, "tot := 0")
				p.globals = append(p.globals, "tot")
				hasTot = true
				continue
			}
			switch rng.Intn(3) {
			case 0:
				p.stmts = append(p.stmts, fmt.Sprintf("for %s := 0; %s < 3; %s++ {\n\ttot += %s\n}", x, x, x, x))
			case 1:
				p.stmts = append(p.stmts, fmt.Sprintf("if %s := %s + 1; %s > 2 {\n\ttot += %s\n}", x, y, x, x))
			default:
				p.stmts = append(p.stmts, fmt.Sprintf("for %s, e := range []int{%s, 7} {\n\ttot += %s * e\n}", x, y, x))
			}
			// and the global is read again at top level right afterwards
			p.stmts = append(p.stmts, fmt.Sprintf("tot += %s", x))
		case 11:
			v := newName("s")
			p.stmts = append(p.stmts, fmt.Sprintf("%s := []int{%s, %s}", v, x, y))
			p.globals = append(p.globals, v)
		case 12:
			p.stmts = append(p.stmts, fmt.Sprintf("%s + %s", x, y))
		}
	}
	return p
}

func checkC18(tier string, seed int64) int {
	c := newCtx("C18", tier, seed, "translation_validation", nil)
	defer c.Close()
	n, nprogs := 4, 400
	if tier == "thorough" {
		n, nprogs = 6, 1000
	}
	var progs []*c18Prog
	for i := 0; i < nprogs; i++ {
		progs = append(progs, genC18(seed*100000+int64(i), 2+i%(n-1)))
	}
	agg, st := NewAgg(), &eqStats{}
	type fail struct {
		p   *c18Prog
		cut int
		f   gosx.Failure
	}
	var mu sync.Mutex
	var fails []fail
	cuts := 0
	c.mu.Lock()
	c.programs += len(progs)
	c.mu.Unlock()
	parallel(len(progs), c.Eng.Workers, func(i int) {
		p := progs[i]
		k := len(p.stmts)
		for cut := 1; cut < 1<<uint(k-1); cut++ {
			cut := cut
			rep := c.Eng.ExploreWith(func(ex *gosx.Exec) {
				ex.InitPackage(c.Eng.Pkg)
				var ins []gosx.Value
				for j := 0; j < p.nin; j++ {
					t := ex.Input(fmt.Sprintf("in%d", j), 32)
					v, _ := ex.Call(ex.Func("Int32"), t)
					ins = append(ins, v)
				}
				run := func(chunks []string) (goatOutcome, []gosx.Value, []gosx.Seg, bool) {
					var cs []gosx.Value
					for _, s := range chunks {
						cs = append(cs, s)
					}
					var gs []gosx.Value
					for _, g := range p.globals {
						gs = append(gs, g)
					}
					res, pan := ex.Call(ex.Func("verifC18Run"), gosx.MkSlice(cs...), gosx.MkSlice(ins...), gosx.MkSlice(gs...))
					out := ex.OutGoat
					ex.OutGoat = nil
					if pan != nil {
						ex.Assert(ex.TT().Bool(false), "C18/host-panic", ex.PanicText(pan), nil)
						return goatOutcome{}, nil, nil, false
					}
					tup := res.(gosx.Tuple)
					return c.decodeOutcome(ex, tup[0]), gosx.SliceElems(tup[1]), out, true
				}
				whole := strings.Join(p.stmts, "\n")
				o1, g1, out1, ok1 := run([]string{whole})
				o2, g2, out2, ok2 := run(splitChunks(p.stmts, cut))
				if !ok1 || !ok2 {
					return
				}
				id := "C18/" + p.id
				if o1.hasEvalErr != o2.hasEvalErr {
					ex.Assert(ex.TT().Bool(false), id+"/outcome", fmt.Sprintf("whole-program Eval: %v; incremental: %v", gosx.ShowValue(o1.evalErr), gosx.ShowValue(o2.evalErr)), nil)
					return
				}
				c.compareStrings(ex, st, id+"/output", "output differs between whole-program and incremental evaluation", gosx.MkStr(out1), gosx.MkStr(out2))
				if o1.hasEvalErr {
					return
				}
				if len(o1.rets) != len(o2.rets) {
					ex.Assert(ex.TT().Bool(false), id+"/nresults", fmt.Sprintf("last expression yields %d values (whole) vs %d (incremental)", len(o1.rets), len(o2.rets)), nil)
					return
				}
				vt := c.Eng.TypeOf("Value")
				for j := range o1.rets {
					c.compareValues(ex, st, fmt.Sprintf("%s/result%d", id, j), o1.rets[j], o2.rets[j], vt)
				}
				for j := range g1 {
					// functions and struct types are compared by kind only (their identity differs between VMs)
					c.compareGlobals(ex, st, fmt.Sprintf("%s/global/%s", id, p.globals[j]), g1[j], g2[j])
				}
				st.mu.Lock()
				st.compared++
				st.mu.Unlock()
			}, "z3", 1)
			agg.Add(rep)
			mu.Lock()
			cuts++
			seen := map[string]bool{}
			for _, f := range rep.Failures {
				if !seen[f.ID] {
					seen[f.ID] = true
					fails = append(fails, fail{p, cut, f})
				}
			}
			mu.Unlock()
		}
		if i%(len(progs)/8+1) == 0 {
			c.Sample(map[string]interface{}{"statements": p.stmts, "cuts_explored": 1<<uint(k-1) - 1, "globals_compared": p.globals})
		}
	})
	c.mu.Lock()
	c.disagree += len(fails)
	c.mu.Unlock()
	done := map[string]bool{}
	for _, f := range fails {
		if done[f.f.ID] {
			continue
		}
		done[f.f.ID] = true
		ok, detail := c.replayC18(f.p, f.cut, f.f.Model)
		c.replays++
		if !ok {
			c.mismatch++
			fmt.Printf("ENGINE-MISMATCH %s cut=%b model=%v detail=%v\n%s\n", f.f.ID, f.cut, f.f.Model, detail, strings.Join(f.p.stmts, "\n"))
			continue
		}
		c.AddViolation(Violation{Key: f.f.ID, What: fmt.Sprintf("%s; statements %q cut mask %b inputs %s: whole → %v; incremental → %v", f.f.Msg, f.p.stmts, f.cut, modelString(f.f.Model), detail["whole"], detail["incremental"]),
			Replay: map[string]interface{}{"kind": "c18", "stmts": f.p.stmts, "globals": f.p.globals, "cut": f.cut, "model": f.f.Model, "assertion": f.f.ID}})
	}
	agg.Into(c, "")
	c.Cov("cuts_explored", cuts)
	c.Cov("paths_compared", st.compared)
	c.Cov("rule", fmt.Sprintf("seeded top-level sequences of 2..%d statements (short declarations, typed var declarations, assignments, compound assignments, if/else, for (also with block-local float/int/byte/string variables), import + print, function/type/method-free struct definitions, calls, struct field updates, slice literals, a final expression) with two symbolic pre-set globals; for EVERY non-trivial way of cutting the sequence into consecutive Eval calls on one VM (shared WithEvalImports map) the output, the last Eval's values (type, number, rendering) and all declared globals are compared with one Eval of the whole text", n))
	c.Assumption("both sides are goatlang's real Eval run in the engine; inputs enter through vm.Set as int32 values")
	return c.Finish(false)
}

func splitChunks(stmts []string, cut int) []string {
	var chunks []string
	cur := stmts[0]
	for i := 1; i < len(stmts); i++ {
		if cut&(1<<uint(i-1)) != 0 {
			chunks = append(chunks, cur)
			cur = stmts[i]
		} else {
			cur += "\n" + stmts[i]
		}
	}
	return append(chunks, cur)
}

// compareGlobals compares two global values: scalars and containers by type/number/rendering, funcs by nil-ness.
func (c *Ctx) compareGlobals(ex *gosx.Exec, st *eqStats, id string, a, b gosx.Value) {
	T := c.Eng.TypeOf("Value")
	ta, _ := ex.Field(a, T, "t").(uint64)
	if ta&0xff == 0b11000000 { // TypeFunc
		tb, _ := ex.Field(b, T, "t").(uint64)
		ex.Assert(ex.TT().Bool(ta == tb), id+"/type", "function global differs in kind", nil)
		return
	}
	c.compareValues(ex, st, id, a, b, T)
}

func (c *Ctx) replayC18(p *c18Prog, cut int, m gosx.Model) (bool, map[string]interface{}) {
	run := func(chunks []string) string {
		var resp struct {
			Out, Err  string
			Rets, Gl  []string
			HostPanic string
		}
		out, err := c.Native.RunOnce(map[string]interface{}{"Op": "c18", "Chunks": chunks, "Globals": p.globals, "Vec": m}, &resp, 60)
		if err != nil {
			return "HOST-CRASH " + lastLines(out, 2)
		}
		if resp.HostPanic != "" {
			return "HOST-PANIC " + resp.HostPanic
		}
		e := ""
		if resp.Err != "" {
			e = " ERROR"
		}
		return fmt.Sprintf("out=%q rets=%v globals=%v%s", resp.Out, resp.Rets, resp.Gl, e)
	}
	w := run([]string{strings.Join(p.stmts, "\n")})
	i := run(splitChunks(p.stmts, cut))
	return w != i, map[string]interface{}{"whole": w, "incremental": i}
}
