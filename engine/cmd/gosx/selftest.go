package main

func runSelftest() int { return 0 }
