package main

import (
	"encoding/json"
	"fmt"
	"math"
	"math/rand"
	"os"
	"path/filepath"
	"strings"
	"sync"
	"time"

	"verif/engine/gosx"
)

// runSelftest validates the translator:
//  1. every term-rewrite rule the engine applies is discharged as a lemma by the solver (raw encoding vs normal form);
//  2. the concrete float→int and append-growth models agree with the native compiler/runtime;
//  3. differential runs: the repository's own test inputs and generated programs on random concrete inputs are pushed
//     through the native build and through the engine, and the observable results must be identical.
func runSelftest() int {
	t0 := time.Now()
	fails := 0
	report := map[string]interface{}{}
	// ---- 1. rewrite lemmas
	lem := gosx.RewriteLemmas()
	var mu sync.Mutex
	results := map[string]string{}
	bad := 0
	parallel(len(lem), 16, func(i int) {
		l := lem[i]
		verdict := gosx.CheckLemma(l)
		mu.Lock()
		results[l.Name] = verdict
		if verdict != "unsat" {
			bad++
			fmt.Printf("SELFTEST rewrite lemma %s: %s\n", l.Name, verdict)
		}
		mu.Unlock()
	})
	report["rewrite_lemmas"] = len(lem)
	report["rewrite_lemmas_failed"] = bad
	fails += bad
	// ---- 2. native agreement of concrete models
	n2, bad2 := gosx.SelftestConcreteModels()
	report["concrete_model_cases"] = n2
	report["concrete_model_mismatches"] = len(bad2)
	for _, b := range bad2 {
		fmt.Println("SELFTEST concrete model:", b)
	}
	fails += len(bad2)
	// ---- 3. differential runs
	c := newCtx("SELFTEST", "quick", 1, "other", nil)
	defer c.Close()
	c.Eng.MaxSteps = 3_000_000
	type cmp struct {
		name, src, entry string
		params           []Param
		results          []string
		strlen           map[string]int
		vec              gosx.Model
	}
	var cases []cmp
	for i, s := range testTableSnippets() {
		cases = append(cases, cmp{name: fmt.Sprintf("testtable%d", i), src: s})
	}
	rng := rand.New(rand.NewSource(7))
	addProgs := func(ps []*Prog, n int) {
		step := 1
		if len(ps) > n {
			step = len(ps) / n
		}
		for i := 0; i < len(ps); i += step {
			p := ps[i]
			if p.Files != nil {
				continue
			}
			for rep := 0; rep < 2; rep++ {
				vec := gosx.Model{}
				for _, pa := range p.Params {
					switch pa.Type {
					case "string":
						for k := 0; k < p.StrLen[pa.Name]; k++ {
							vec[fmt.Sprintf("%s_%d", pa.Name, k)] = uint64([]byte{0x61, 0xc3, 0xa9, 0xff, 0x20, 0xe4, 0xb8, 0x96}[rng.Intn(8)])
						}
					case "float64":
						vec[pa.Name] = math.Float64bits([]float64{0, 1.5, -2.25, 1e21, -0.0, 3}[rng.Intn(6)])
					case "bool":
						vec[pa.Name] = uint64(rng.Intn(2))
					default:
						vec[pa.Name] = []uint64{0, 1, 2, 3, 5, 7, 200, 255, 0x7fffffff, 0x80000000, 0xffffffff, 0xfffffffe}[rng.Intn(12)]
					}
				}
				cases = append(cases, cmp{name: p.ID, src: p.Src, entry: p.Entry, params: p.Params, results: p.Results, strlen: p.StrLen, vec: vec})
			}
		}
	}
	addProgs(typedOpProgs(), 60)
	addProgs(genC05("quick", 1), 80)
	addProgs(genC06("quick", 1), 60)
	addProgs(genC13("quick"), 60)
	addProgs(genStmtProgs(), 40)
	var sc []*Prog
	for i := 0; i < 25; i++ {
		sc = append(sc, genScopeProg(i, 900000+int64(i)), genCallProg(i, 900000+int64(i)), genSliceProg(i, 900000+int64(i), 4, false), genMapProg(i, 900000+int64(i), 3), genComposite(i, 900000+int64(i)))
	}
	addProgs(sc, 200)
	mism := 0
	skipped := 0
	var smu sync.Mutex
	parallel(len(cases), 16, func(i int) {
		cs := cases[i]
		p := &Prog{ID: cs.name, Src: cs.src, Entry: cs.entry, Params: cs.params, Results: cs.results, StrLen: cs.strlen}
		// native
		var args []map[string]interface{}
		for _, pa := range cs.params {
			_, a := concreteArg(pa, cs.vec, cs.strlen)
			args = append(args, a)
		}
		entry := ""
		if cs.entry != "" {
			entry = "main." + cs.entry
		}
		var gr nativeProgResp
		req := map[string]interface{}{"Op": "prog", "Prog": map[string]interface{}{"Src": cs.src, "Entry": entry, "NRes": len(cs.results), "Args": args, "Mode": 0}}
		native := ""
		if out, err := c.Native.RunOnce(req, &gr, 20); err != nil {
			native = "HOST-CRASH"
			_ = out
		} else {
			gr.fix()
			native = nativeSummary(&gr)
		}
		// engine, inputs pinned to the vector
		got := ""
		unsup := false
		rep := c.Eng.ExploreWith(func(ex *gosx.Exec) {
			ex.InitPackage(c.Eng.Pkg)
			goatArgs, _, in := c.mkInputs(ex, p)
			tt := ex.TT()
			for name, t := range in {
				ex.Assume(pinTo(tt, t, cs.vec[name]))
			}
			res, pan := ex.Call(ex.Func("verifEvalCall"), cs.src, entry, uint64(len(cs.results)), gosx.MkSlice(goatArgs...), uint64(0))
			if pan != nil {
				got = "HOST-CRASH"
				return
			}
			o := c.decodeOutcome(ex, res)
			m := ex.Model()
			switch {
			case o.hasEvalErr:
				got = "EVAL-ERROR"
			default:
				got = "out=" + fmt.Sprintf("%q", renderSegs(ex.OutGoat, m))
				if o.hasCallErr {
					got += " ERROR"
				} else {
					for k, r := range o.rets {
						s, _ := ex.Call(ex.Func("verifValueString"), r)
						tag, _ := ex.Field(r, c.Eng.TypeOf("Value"), "t").(uint64)
						got += fmt.Sprintf(" ret%d=%s:%s", k, tagName(int(tag)), renderSegs(gosx.StrSegs(s), m))
					}
				}
			}
		}, "z3", 1)
		if rep.ByEnd["unsupported"] > 0 || rep.ByEnd["unwind"] > 0 {
			unsup = true
		}
		smu.Lock()
		defer smu.Unlock()
		if unsup {
			skipped++
			return
		}
		if rep.Paths != 1 && got != "" {
			// pinned inputs must give exactly one path
			_ = rep.Paths
		}
		if got != native && !(strings.Contains(cs.src, "rand.") || strings.Contains(cs.src, "time.") || strings.Contains(cs.src, "os.")) {
			if mapOrderOnly(got, native) {
				skipped++
				return
			}
			mism++
			if mism <= 10 {
				fmt.Printf("SELFTEST differential mismatch %s vec=%v\n  engine: %s\n  native: %s\n  src: %s\n", cs.name, cs.vec, truncate(got, 300), truncate(native, 300), truncate(cs.src, 300))
			}
		}
	})
	report["differential_cases"] = len(cases)
	report["differential_mismatches"] = mism
	report["differential_skipped_unsupported_or_map_order"] = skipped
	fails += mism
	report["wall_s"] = time.Since(t0).Seconds()
	b, _ := json.MarshalIndent(report, "", " ")
	os.MkdirAll(filepath.Join(outDir, "evidence"), 0o755)
	os.WriteFile(filepath.Join(outDir, "evidence", "selftest.json"), b, 0o644)
	fmt.Println(string(b))
	if fails > 0 {
		fmt.Printf("SELFTEST FAILED: %d problems\n", fails)
		return 1
	}
	fmt.Println("SELFTEST ok")
	return 0
}

func nativeSummary(gr *nativeProgResp) string {
	switch {
	case gr.HostPanic != "":
		return "HOST-CRASH"
	case gr.EvalErr != "":
		return "EVAL-ERROR"
	}
	s := "out=" + fmt.Sprintf("%q", gr.Out)
	if gr.CallErr != "" {
		return s + " ERROR"
	}
	for i, r := range gr.Rets {
		s += fmt.Sprintf(" ret%d=%s:%s", i, tagName(r.T), r.Str)
	}
	return s
}

// mapOrderOnly reports whether two results differ only by the order of map entries in a rendering.
func mapOrderOnly(a, b string) bool {
	if !strings.Contains(a, "map[") || len(a) != len(b) {
		return false
	}
	sortRunes := func(s string) string {
		f := strings.FieldsFunc(s, func(r rune) bool { return r == ' ' || r == '[' || r == ']' })
		m := map[string]int{}
		for _, x := range f {
			m[x]++
		}
		return fmt.Sprint(m)
	}
	return sortRunes(a) == sortRunes(b)
}
