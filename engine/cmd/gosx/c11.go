package main

import (
	"fmt"
	"math/rand"
	"strings"
)

func init() { checks["C11"] = checkC11 }

// Slice histories over a pool of three []int variables.  The generator tracks array identity, offset, length and
// (where the Go spec determines it) capacity, and only emits steps whose observable outcome does not depend on the
// growth policy of append: an append may reallocate only when len == cap is known exactly, and a slice whose
// capacity is policy-dependent is only appended to in place (a = append(a, …)) while no other variable shares its array.

type slState struct {
	isNil         bool
	arr           int
	off, len, cap int // cap < 0: unknown (policy dependent)
}

type sliceGen struct {
	rng    *rand.Rand
	vars   map[string]*slState
	names  []string
	narr   int
	sb     strings.Builder
	params []Param
	nin    int
	symIdx bool
	steps  map[string]int
}

func (g *sliceGen) input() string {
	n := fmt.Sprintf("i%d", g.nin)
	g.nin++
	g.params = append(g.params, Param{n, "int"})
	return n
}

func (g *sliceGen) line(f string, a ...interface{}) {
	g.sb.WriteString("\t")
	fmt.Fprintf(&g.sb, f, a...)
	g.sb.WriteString("\n")
}

func (g *sliceGen) shared(name string) bool {
	s := g.vars[name]
	if s.isNil {
		return false
	}
	for n, o := range g.vars {
		if n != name && !o.isNil && o.arr == s.arr {
			return true
		}
	}
	return false
}

func (g *sliceGen) dump(tag int) {
	var parts []string
	for _, n := range g.names {
		parts = append(parts, fmt.Sprintf("len(%s), %s", n, n))
	}
	g.line("fmt.Println(%d, %s)", tag, strings.Join(parts, ", "))
}

func (g *sliceGen) pick() string { return g.names[g.rng.Intn(len(g.names))] }

func (g *sliceGen) step() {
	rng := g.rng
	for tries := 0; tries < 20; tries++ {
		a := g.pick()
		sa := g.vars[a]
		switch rng.Intn(14) {
		case 0: // make
			n := rng.Intn(4)
			g.line("%s = make([]int, %d)", a, n)
			g.narr++
			*sa = slState{arr: g.narr, len: n, cap: n}
			g.steps["make"]++
			return
		case 1: // literal
			n := 1 + rng.Intn(3)
			var el []string
			for i := 0; i < n; i++ {
				el = append(el, g.input())
			}
			g.line("%s = []int{%s}", a, strings.Join(el, ", "))
			g.narr++
			*sa = slState{arr: g.narr, len: n, cap: n}
			g.steps["literal"]++
			return
		case 2, 10, 11, 12: // sub-slice
			b := g.pick()
			sb := g.vars[b]
			if sb.isNil {
				continue
			}
			limit := sb.len
			if sb.cap >= 0 && rng.Intn(3) == 0 {
				limit = sb.cap
			}
			lo := rng.Intn(limit + 1)
			hi := lo + rng.Intn(limit-lo+1)
			switch rng.Intn(4) {
			case 0:
				if lo > sb.len {
					continue
				}
				hi = sb.len
				g.line("%s = %s[%d:]", a, b, lo)
			case 1:
				lo = 0
				g.line("%s = %s[:%d]", a, b, hi)
			default:
				g.line("%s = %s[%d:%d]", a, b, lo, hi)
			}
			nc := -1
			if sb.cap >= 0 {
				nc = sb.cap - lo
			}
			if hi > sb.len {
				g.steps["subslice-beyond-len"]++
			}
			*sa = slState{arr: sb.arr, off: sb.off + lo, len: hi - lo, cap: nc}
			g.steps["subslice"]++
			return
		case 3: // element write
			if sa.isNil || sa.len == 0 {
				continue
			}
			g.line("%s[%d] = %s", a, rng.Intn(sa.len), g.input())
			g.steps["write"]++
			return
		case 4, 5: // append
			src := g.pick()
			ss := g.vars[src]
			n := 1 + rng.Intn(2)
			var el []string
			for i := 0; i < n; i++ {
				el = append(el, g.input())
			}
			if ss.isNil {
				g.line("%s = append(%s, %s)", a, src, strings.Join(el, ", "))
				g.narr++
				*sa = slState{arr: g.narr, len: n, cap: -1}
				g.steps["append-nil"]++
				return
			}
			switch {
			case ss.cap >= 0 && ss.len+n <= ss.cap:
				g.line("%s = append(%s, %s)", a, src, strings.Join(el, ", "))
				*sa = slState{arr: ss.arr, off: ss.off, len: ss.len + n, cap: ss.cap}
				g.steps["append-inplace"]++
			case ss.cap >= 0:
				g.line("%s = append(%s, %s)", a, src, strings.Join(el, ", "))
				g.narr++
				*sa = slState{arr: g.narr, len: ss.len + n, cap: -1}
				g.steps["append-realloc"]++
			default:
				if g.shared(src) {
					continue
				}
				g.line("%s = append(%s, %s)", src, src, strings.Join(el, ", "))
				ss.len += n
				g.steps["append-unknown-cap"]++
			}
			return
		case 6: // append spread
			src, b := g.pick(), g.pick()
			ss, sb := g.vars[src], g.vars[b]
			n := 0
			if !sb.isNil {
				n = sb.len
			}
			if n == 0 {
				continue
			}
			if ss.isNil {
				g.line("%s = append(%s, %s...)", a, src, b)
				g.narr++
				*sa = slState{arr: g.narr, len: n, cap: -1}
				g.steps["append-spread"]++
				return
			}
			switch {
			case ss.cap >= 0 && ss.len+n <= ss.cap:
				// in place: reading b while writing into the shared array is defined (b is evaluated first) but keep it simple
				if sb.arr == ss.arr {
					continue
				}
				g.line("%s = append(%s, %s...)", a, src, b)
				*sa = slState{arr: ss.arr, off: ss.off, len: ss.len + n, cap: ss.cap}
			case ss.cap >= 0:
				g.line("%s = append(%s, %s...)", a, src, b)
				g.narr++
				*sa = slState{arr: g.narr, len: ss.len + n, cap: -1}
			default:
				if g.shared(src) {
					continue
				}
				g.line("%s = append(%s, %s...)", src, src, b)
				ss.len += n
			}
			g.steps["append-spread"]++
			return
		case 7: // copy (between variables, or between overlapping views of one variable)
			if !sa.isNil && sa.len >= 2 && rng.Intn(2) == 0 {
				k := 1 + rng.Intn(sa.len-1)
				if rng.Intn(2) == 0 {
					g.line("copy(%s[%d:], %s)", a, k, a)
				} else {
					g.line("copy(%s, %s[%d:])", a, a, k)
				}
				g.steps["copy-overlap"]++
				return
			}
			b := g.pick()
			g.line("copy(%s, %s)", a, b)
			g.steps["copy"]++
			return
		case 8, 13:
			if rng.Intn(2) == 0 {
				// two appends from ONE base that has no spare capacity (also an empty make): two independent arrays
				src := g.pick()
				ss := g.vars[src]
				if ss.isNil || ss.cap < 0 || ss.len != ss.cap {
					continue
				}
				var others []string
				for _, n := range g.names {
					if n != src {
						others = append(others, n)
					}
				}
				g.line("%s = append(%s, %s)", others[0], src, g.input())
				g.line("%s = append(%s, %s, %s)", others[1], src, g.input(), g.input())
				g.narr++
				*g.vars[others[0]] = slState{arr: g.narr, len: ss.len + 1, cap: -1}
				g.narr++
				*g.vars[others[1]] = slState{arr: g.narr, len: ss.len + 2, cap: -1}
				g.steps["append-twice-from-full-base"]++
				return
			}
			fallthrough
		case 14: // nil
			if rng.Intn(3) != 0 {
				continue
			}
			g.line("%s = nil", a)
			*sa = slState{isNil: true}
			g.steps["nil"]++
			return
		case 9: // range
			if !sa.isNil && sa.len >= 2 && rng.Intn(2) == 0 {
				// the body writes to an element the loop has not reached yet (seen by the loop), appends to the ranged
				// variable (not seen: the length is fixed when the loop starts) and assigns to the value variable (no effect)
				g.line("for k, v := range %s {", a)
				g.line("\tif k == 0 {")
				g.line("\t\t%s[%d] = %s", a, sa.len-1, g.input())
				g.line("\t}")
				g.line("\tv += 1000")
				g.line("\tfmt.Println(\"rw\", k, v)")
				g.line("}")
				g.steps["range-writes-ahead"]++
				return
			}
			g.line("for k, v := range %s {", a)
			g.line("\tfmt.Println(\"r\", k, v)")
			g.line("}")
			g.steps["range"]++
			return
		}
	}
}

func genSliceProg(id int, seed int64, nsteps int, symIdx bool) *Prog {
	g := &sliceGen{rng: rand.New(rand.NewSource(seed)), vars: map[string]*slState{}, names: []string{"a", "b", "c"}, symIdx: symIdx, steps: map[string]int{}}
	for _, n := range g.names {
		g.vars[n] = &slState{isNil: true}
	}
	g.prelude(id)
	for i := 0; i < nsteps; i++ {
		g.step()
		g.dump(i)
	}
	if symIdx {
		// one symbolic-index access at the end: read, write and re-slice with unconstrained indexes
		n := g.pick()
		k, lo, hi := "k", "lo", "hi"
		g.params = append(g.params, Param{k, "int"}, Param{lo, "int"}, Param{hi, "int"})
		g.line("if sel == 0 {")
		g.line("\tfmt.Println(\"get\", %s[%s])", n, k)
		g.line("} else if sel == 1 {")
		g.line("\t%s[%s] = 77", n, k)
		g.line("} else {")
		if st := g.vars[n]; !st.isNil && st.cap < 0 {
			// capacity is growth-policy dependent: re-slicing beyond len is only claimed when it does not reach into it
			g.line("\tif %s <= len(%s) {", hi, n)
			g.line("\t\tc = %s[%s:%s]", n, lo, hi)
			g.line("\t}")
		} else {
			g.line("\tc = %s[%s:%s]", n, lo, hi)
		}
		g.line("}")
		g.params = append(g.params, Param{"sel", "int"})
		g.dump(nsteps)
	}
	name := fmt.Sprintf("f%d", id)
	var ps []string
	for _, p := range g.params {
		ps = append(ps, p.Name+" "+p.Type)
	}
	src := fmt.Sprintf("package main\n\nimport \"fmt\"\n\nfunc %s(%s) int {\n%s\treturn len(a) + len(b) + len(c)\n}\n", name, strings.Join(ps, ", "), g.sb.String())
	fam := "hist"
	if symIdx {
		fam = "symidx"
	}
	return &Prog{ID: fmt.Sprintf("slices:%d", seed), Src: src, Entry: name, Params: g.params, Results: []string{"int"}, Family: fmt.Sprintf("C11/%s/seed%d", fam, seed)}
}

// prelude declares the pool; every other program starts from two overlapping views of one array with spare capacity
// (so in-place appends and re-slices up to the capacity are reached within a few steps).
func (g *sliceGen) prelude(id int) {
	if id%2 == 0 {
		g.line("var a []int")
		g.line("var b []int")
		g.line("var c []int")
		return
	}
	n := 3 + g.rng.Intn(3)
	var el []string
	for i := 0; i < n; i++ {
		el = append(el, g.input())
	}
	g.line("a := []int{%s}", strings.Join(el, ", "))
	g.narr++
	*g.vars["a"] = slState{arr: g.narr, len: n, cap: n}
	lo := g.rng.Intn(n)
	hi := lo + g.rng.Intn(n-lo)
	g.line("b := a[%d:%d]", lo, hi)
	*g.vars["b"] = slState{arr: g.narr, off: lo, len: hi - lo, cap: n - lo}
	g.line("var c []int")
	g.steps["prelude-views"]++
}

// genSliceSteps reports which step kinds a generated history contains (generator statistics).
func genSliceSteps(id int, seed int64, nsteps int) map[string]int {
	g := &sliceGen{rng: rand.New(rand.NewSource(seed)), vars: map[string]*slState{}, names: []string{"a", "b", "c"}, steps: map[string]int{}}
	for _, n := range g.names {
		g.vars[n] = &slState{isNil: true}
	}
	g.prelude(id)
	for i := 0; i < nsteps; i++ {
		g.step()
	}
	return g.steps
}

func checkC11(tier string, seed int64) int {
	c := newCtx("C11", tier, seed, "translation_validation", nil)
	defer c.Close()
	n, steps := 300, 6
	if tier == "thorough" {
		n, steps = 5000, 10
	}
	var progs []*Prog
	for i := 0; i < n; i++ {
		progs = append(progs, genSliceProg(i, seed*100000+int64(i), 2+i%(steps-1), i%4 == 3))
	}
	agg, st := NewAgg(), &eqStats{}
	c.runEquiv(progs, "z3", agg, st)
	agg.Into(c, "")
	c.Cov("rule", fmt.Sprintf("seeded histories of 2..%d steps over three []int variables: make, literal, sub-slice (also up to a known capacity), element write, append (nil receiver, in place, reallocating at len==cap, spread), copy, nil, range, with all variables printed after every step; element values symbolic; every 4th program ends with a read / write / re-slice at unconstrained symbolic indexes (out-of-range ⇒ error on both sides); only growth-policy-independent steps are generated (capacity tracked by the generator)", steps))
	c.Cov("paths_compared", st.compared)
	c.Cov("both_sides_fail_paths", st.bothPanic)
	c.Assumption("append growth beyond len==cap gives an unspecified capacity: generated programs never depend on it (generator-side capacity tracking); both sides use Go's real growslice formula for their element sizes")
	return c.Finish(false)
}
