package main

import (
	"fmt"
	"go/types"
	"math"
	"os"
	"os/exec"
	"path/filepath"
	"strconv"
	"strings"
	"sync"

	"golang.org/x/tools/go/ssa"

	"verif/engine/gosx"
)

// Shape E: the same program text is run by goatlang's real code inside the engine and, lowered by go/ssa under
// GOARCH=386 sizes, as the Go reference; the solver decides whether outputs/results can differ for any input.

type Param struct {
	Name string
	Type string // int int32 rune byte uint8 int8 uint32 uint float64 bool string
}

type Prog struct {
	ID       string
	Src      string // Go source: "package main\n..." containing func <Entry>
	Entry    string
	Params   []Param
	Results  []string
	Mode     int                                           // goat side pipeline (0 public API)
	Assume   func(ex *gosx.Exec, in map[string]*gosx.Term) // optional input assumptions (stated in evidence)
	Family   string                                        // known-findings key prefix (class of program)
	Tags     map[string]string
	StrLen   map[string]int    // length of symbolic-content string parameters
	Files    map[string]string // when set: the program is the package main in this tree (dir main/), loaded with Load
	RefFiles map[string]string // Go-reference rendering of Files when it differs (e.g. an imported package flattened into main)
	Shared   bool              // may share one reference package with other programs (only funcs with unique names)
	Imports  []string
	ref      *ssa.Package

	replayTimeout int // seconds for the native goat run of a replay (0: default)
}

type typeInfo struct {
	Bits   int
	Signed bool
	Ctor   string
	Tag    uint64
	ArgT   string
}

var goTypes = map[string]typeInfo{
	"int":     {32, true, "Int32", 0b10111, "int32"},
	"int32":   {32, true, "Int32", 0b10111, "int32"},
	"rune":    {32, true, "Int32", 0b10111, "int32"},
	"byte":    {8, false, "Uint8", 0b00011, "uint8"},
	"uint8":   {8, false, "Uint8", 0b00011, "uint8"},
	"int8":    {8, true, "Int8", 0b10011, "int8"},
	"uint32":  {32, false, "Uint32", 0b00111, "uint32"},
	"uint":    {32, false, "Uint32", 0b00111, "uint32"},
	"float64": {-1, true, "Float64", 0b11111, "float64"},
	"bool":    {0, false, "Bool", 0b100000, "bool"},
	"string":  {-2, false, "String", 0b1000000, "string"},
}

// loadRefs writes all programs into a scratch module and loads them for GOARCH=386; programs that do not type-check
// as Go under 32-bit int are dropped (they are not "valid Go" in the property's sense).
func (c *Ctx) loadRefs(progs []*Prog) (kept []*Prog, rejected int) {
	c.mu.Lock()
	c.refBatch++
	batch := c.refBatch
	c.mu.Unlock()
	dir := filepath.Join(c.Work, fmt.Sprintf("ref%d", batch))
	os.MkdirAll(dir, 0o755)
	os.WriteFile(filepath.Join(dir, "go.mod"), []byte("module verifref\n\ngo 1.23\n"), 0o644)
	pkgOf := make([]string, len(progs))
	var shared strings.Builder
	imports := map[string]bool{}
	nshared := 0
	for i, p := range progs {
		if p.Shared {
			pkgOf[i] = fmt.Sprintf("verifref/b%dshared", batch)
			shared.WriteString(strings.TrimPrefix(p.Src, "package main\n"))
			shared.WriteString("\n")
			for _, im := range p.Imports {
				imports[im] = true
			}
			nshared++
			continue
		}
		pkgOf[i] = fmt.Sprintf("verifref/b%dp%d", batch, i)
		pd := filepath.Join(dir, fmt.Sprintf("b%dp%d", batch, i))
		os.MkdirAll(pd, 0o755)
		if p.Files != nil {
			for name, content := range p.refFiles() {
				if strings.HasPrefix(name, "main/") {
					os.WriteFile(filepath.Join(pd, strings.ReplaceAll(strings.TrimPrefix(name, "main/"), "/", "_")), []byte(content), 0o644)
				}
			}
			os.WriteFile(filepath.Join(pd, "zz_mainfunc.go"), []byte("package main\n\nfunc main() {}\n"), 0o644)
			continue
		}
		src := p.Src
		if !strings.Contains(src, "func main()") {
			src += "\n\nfunc main() {}\n"
		}
		os.WriteFile(filepath.Join(pd, "prog.go"), []byte(src), 0o644)
	}
	if nshared > 0 {
		pd := filepath.Join(dir, fmt.Sprintf("b%dshared", batch))
		os.MkdirAll(pd, 0o755)
		var hdr strings.Builder
		hdr.WriteString("package main\n\n")
		for im := range imports {
			fmt.Fprintf(&hdr, "import %q\n", im)
		}
		os.WriteFile(filepath.Join(pd, "prog.go"), []byte(hdr.String()+shared.String()+"\nfunc main() {}\n"), 0o644)
	}
	pk, err := c.Eng.LoadRef(dir, "./...")
	if err != nil {
		fatal(fmt.Errorf("loading reference programs: %w", err))
	}
	if nshared > 0 && pk[fmt.Sprintf("verifref/b%dshared", batch)] == nil {
		fatal(fmt.Errorf("shared reference package does not type-check: %s", c.Eng.RefRejected[fmt.Sprintf("verifref/b%dshared", batch)]))
	}
	for i, p := range progs {
		sp := pk[pkgOf[i]]
		if sp == nil || sp.Func(p.Entry) == nil {
			rejected++
			if os.Getenv("GOSX_DEBUG") != "" {
				fmt.Fprintf(os.Stderr, "rejected %s: %s\n%s\n", p.ID, c.Eng.RefRejected[pkgOf[i]], p.Src)
			}
			continue
		}
		p.ref = sp
		kept = append(kept, p)
	}
	return kept, rejected
}

type eqStats struct {
	mu                       sync.Mutex
	programs, goatRejects    int
	structural, inconclusive int
	bothPanic, compared      int
}

// goatOutcome decodes the verifOutcome struct returned by verifEvalCall.
type goatOutcome struct {
	rets             []gosx.Value
	evalErr, callErr gosx.Value
	hasEvalErr       bool
	hasCallErr       bool
}

func (c *Ctx) decodeOutcome(ex *gosx.Exec, v gosx.Value) goatOutcome {
	t := c.Eng.TypeOf("verifOutcome")
	var o goatOutcome
	o.rets = gosx.SliceElems(ex.Field(v, t, "rets"))
	o.evalErr, o.hasEvalErr = ex.ErrText(ex.Field(v, t, "evalErr"))
	o.callErr, o.hasCallErr = ex.ErrText(ex.Field(v, t, "callErr"))
	return o
}

// mkInputs creates the symbolic inputs of p: goat-side Values and reference-side Go values.
func (c *Ctx) mkInputs(ex *gosx.Exec, p *Prog) (goat []gosx.Value, ref []gosx.Value, in map[string]*gosx.Term) {
	tt := ex.TT()
	in = map[string]*gosx.Term{}
	for _, pa := range p.Params {
		ti := goTypes[pa.Type]
		var t *gosx.Term
		var gv gosx.Value
		switch {
		case pa.Type == "string":
			n := p.StrLen[pa.Name]
			segs := make([]gosx.Seg, n)
			for i := 0; i < n; i++ {
				b := ex.Input(fmt.Sprintf("%s_%d", pa.Name, i), 8)
				in[fmt.Sprintf("%s_%d", pa.Name, i)] = b
				segs[i] = gosx.Seg{K: gosx.SegByte, T: b}
			}
			s := gosx.MkStr(segs)
			r, pan := ex.Call(ex.Func("String"), s)
			if pan != nil {
				panic("String() panicked")
			}
			goat = append(goat, r)
			ref = append(ref, s)
			continue
		case ti.Bits == -1:
			t = ex.Input(pa.Name, gosx.SFP)
		case ti.Bits == 0:
			t = ex.Input(pa.Name, gosx.SBool)
		default:
			t = ex.Input(pa.Name, ti.Bits)
		}
		in[pa.Name] = t
		r, pan := ex.Call(ex.Func(ti.Ctor), t)
		if pan != nil {
			panic("constructor panicked")
		}
		gv = r
		goat = append(goat, gv)
		ref = append(ref, t)
		_ = tt
	}
	return
}

// segsEqual compares two output segment lists. It returns (cond, true) when they have the same shape (cond = all
// rendered arguments equal) and (nil,false) when shapes differ.
func segsEqual(ex *gosx.Exec, a, b []gosx.Seg) (*gosx.Term, bool) {
	tt := ex.TT()
	a, b = gosx.StrSegs(gosx.MkStr(a)), gosx.StrSegs(gosx.MkStr(b))
	if len(a) != len(b) {
		if os.Getenv("GOSX_SHAPES") != "" {
			fmt.Fprintf(os.Stderr, "shape mismatch (len):\n  A=%s\n  B=%s\n", gosx.ShowValue(gosx.MkStr(a)), gosx.ShowValue(gosx.MkStr(b)))
		}
		return nil, false
	}
	cond := tt.Bool(true)
	for i := range a {
		if a[i].K != b[i].K {
			// a signed and an unsigned decimal rendering agree iff the 64-bit values agree and are non-negative
			if (a[i].K == gosx.SegDec && b[i].K == gosx.SegUDec) || (a[i].K == gosx.SegUDec && b[i].K == gosx.SegDec) {
				cond = tt.And(cond, tt.And(tt.Eq(a[i].T, b[i].T), tt.Cmp(gosx.OpSLe, tt.BV(0, 64), a[i].T)))
				continue
			}
			if os.Getenv("GOSX_SHAPES") != "" {
				fmt.Fprintf(os.Stderr, "shape mismatch at %d: %v vs %v\n  A=%s\n  B=%s\n", i, a[i].K, b[i].K, gosx.ShowValue(gosx.MkStr(a)), gosx.ShowValue(gosx.MkStr(b)))
			}
			return nil, false
		}
		switch a[i].K {
		case gosx.SegLit:
			if a[i].S != b[i].S {
				return tt.Bool(false), true
			}
		case gosx.SegFlt:
			x, y := a[i].T, b[i].T
			bothNaN := tt.And(tt.FPred(gosx.OpFIsNaN, x), tt.FPred(gosx.OpFIsNaN, y))
			same := tt.And(tt.FCmp(gosx.OpFEq, x, y), tt.Eq(tt.FPred(gosx.OpFIsNeg, x), tt.FPred(gosx.OpFIsNeg, y)))
			cond = tt.And(cond, tt.Or(bothNaN, same))
		default:
			if a[i].T.W != b[i].T.W {
				return nil, false
			}
			cond = tt.And(cond, tt.Eq(a[i].T, b[i].T))
		}
	}
	return cond, true
}

// forceSegs turns Bool segments that the path condition forces into literals.
func forceSegs(ex *gosx.Exec, segs []gosx.Seg) []gosx.Seg {
	tt := ex.TT()
	out := make([]gosx.Seg, 0, len(segs))
	for _, g := range segs {
		if g.K == gosx.SegBool {
			if ex.Feasible(g.T) == gosx.Unsat {
				g = gosx.Seg{K: gosx.SegLit, S: "false"}
			} else if ex.Feasible(tt.Not(g.T)) == gosx.Unsat {
				g = gosx.Seg{K: gosx.SegLit, S: "true"}
			}
		}
		out = append(out, g)
	}
	return gosx.StrSegs(gosx.MkStr(out))
}

// renderSegs renders a segment list under a model.
func renderSegs(segs []gosx.Seg, m gosx.Model) string {
	var sb strings.Builder
	for _, g := range segs {
		switch g.K {
		case gosx.SegLit:
			sb.WriteString(g.S)
		case gosx.SegDec:
			v, _ := gosx.Eval(g.T, m)
			sb.WriteString(strconv.FormatInt(int64(v), 10))
		case gosx.SegUDec:
			v, _ := gosx.Eval(g.T, m)
			sb.WriteString(strconv.FormatUint(v, 10))
		case gosx.SegFlt:
			_, f := gosx.Eval(g.T, m)
			sb.WriteString(fmt.Sprint(f))
		case gosx.SegBool:
			v, _ := gosx.Eval(g.T, m)
			sb.WriteString(strconv.FormatBool(v != 0))
		case gosx.SegByte:
			v, _ := gosx.Eval(g.T, m)
			sb.WriteByte(byte(v))
		case gosx.SegRune:
			v, _ := gosx.Eval(g.T, m)
			sb.WriteString(string(rune(int32(v))))
		}
	}
	return sb.String()
}

// compareStrings asserts equality of two string values (same shape → solver; different shapes → model check).
func (c *Ctx) compareStrings(ex *gosx.Exec, st *eqStats, id, what string, goat, ref gosx.Value) {
	ga, rb := gosx.StrSegs(goat), gosx.StrSegs(ref)
	cond, same := segsEqual(ex, ga, rb)
	if same {
		ex.Assert(cond, id, what, map[string]interface{}{"goat": gosx.ShowValue(goat), "ref": gosx.ShowValue(ref)})
		return
	}
	// different shapes: first replace boolean segments whose value the path condition forces
	ga, rb = forceSegs(ex, ga), forceSegs(ex, rb)
	if cond, same := segsEqual(ex, ga, rb); same {
		ex.Assert(cond, id, what, map[string]interface{}{"goat": gosx.ShowValue(goat), "ref": gosx.ShowValue(ref)})
		return
	}
	// still different shapes: decide on the current model only (sound for violations, incomplete for equivalence)
	m := ex.Model()
	gs, rs := renderSegs(ga, m), renderSegs(rb, m)
	if gs != rs {
		ex.Assert(ex.TT().Bool(false), id, what+" (shapes differ; decided on a model)", map[string]interface{}{"goat": gs, "ref": rs})
		return
	}
	// the sampled model agrees: sweep special values of every input (one at a time, the others left to the solver)
	// and decide each feasible one concretely; a disagreement is asserted with all inputs pinned to that model
	tt := ex.TT()
	for _, v := range ex.InputVars() {
		for _, sp := range specialValues(tt, v) {
			m2, ok := ex.ModelFor(tt.Eq(v, sp))
			if !ok {
				continue
			}
			if v.W == gosx.SFP {
				m2, ok = ex.ModelFor(pinTo(tt, v, math.Float64bits(sp.F)))
				if !ok {
					continue
				}
			}
			g2, r2 := renderSegs(ga, m2), renderSegs(rb, m2)
			if g2 == r2 {
				continue
			}
			pin := tt.Bool(true)
			for _, w := range ex.InputVars() {
				if val, has := m2[w.Name]; has {
					pin = tt.And(pin, pinTo(tt, w, val))
				}
			}
			ex.Assert(tt.Not(pin), id, what+" (shapes differ; decided on special input values)", map[string]interface{}{"goat": g2, "ref": r2})
			return
		}
	}
	st.mu.Lock()
	st.structural++
	st.mu.Unlock()
	ex.Incomplete("output shapes differ and agree on the sampled model and on the special-value sweep: " + id)
}

// specialValues lists boundary values of an input's sort (used when two renderings cannot be compared symbolically).
func specialValues(tt *gosx.TermTable, v *gosx.Term) []*gosx.Term {
	var out []*gosx.Term
	switch {
	case v.W == gosx.SFP:
		for _, f := range []float64{math.Copysign(0, -1), 0, 1, -1, 0.5, -2.5, 999999, 1e6, 1e20, 1e21, 1e-4, 1e-5, 123456789, 9007199254740992, math.MaxFloat64, math.SmallestNonzeroFloat64, math.Inf(1), math.Inf(-1), math.NaN()} {
			out = append(out, tt.FP(f))
		}
	case v.W == gosx.SBool:
		out = append(out, tt.Bool(false), tt.Bool(true))
	case v.W > 0 && v.W <= 64:
		mask := ^uint64(0)
		if v.W < 64 {
			mask = 1<<uint(v.W) - 1
		}
		for _, x := range []uint64{0, 1, 2, 9, 10, 127, 128, 255, 256, 65535, 65536, 1 << 31, 1<<31 - 1, mask, mask - 1, mask >> 1, mask>>1 + 1} {
			out = append(out, tt.BV(x&mask, v.W))
		}
	}
	return out
}

// compareResult asserts that a goat Value equals the Go result of static type gt.
func (c *Ctx) compareResult(ex *gosx.Exec, st *eqStats, id string, gv gosx.Value, rv gosx.Value, gt string) {
	tt := ex.TT()
	vt := c.Eng.TypeOf("Value")
	ti, ok := goTypes[gt]
	if !ok {
		ex.Incomplete("result type " + gt + " not comparable")
		return
	}
	tag := ex.Field(gv, vt, "t")
	tagOK := tt.Bool(false)
	switch tg := tag.(type) {
	case uint64:
		tagOK = tt.Bool(tg == ti.Tag)
	case *gosx.Term:
		tagOK = tt.Eq(tg, tt.BV(ti.Tag, tg.W))
	}
	ex.Assert(tagOK, id+"/type", fmt.Sprintf("result has dynamic type tag %v, Go type is %s", gosx.ShowValue(tag), gt), nil)
	num := ex.Field(gv, vt, "num")
	lift := func(v gosx.Value, w int) *gosx.Term {
		switch v := v.(type) {
		case *gosx.Term:
			return v
		case uint64:
			return tt.BV(v, w)
		case float64:
			return tt.FP(v)
		case bool:
			return tt.Bool(v)
		}
		panic(fmt.Sprintf("lift %T", v))
	}
	switch {
	case gt == "string":
		t, sv := gosx.IfaceParts(ex.Field(gv, vt, "value"))
		if t == nil {
			ex.Assert(tt.Bool(false), id+"/value", "string result has nil payload", nil)
			return
		}
		c.compareStrings(ex, st, id+"/value", "string result differs", sv, rv)
	case ti.Bits == -1:
		x, y := lift(num, gosx.SFP), lift(rv, gosx.SFP)
		bothNaN := tt.And(tt.FPred(gosx.OpFIsNaN, x), tt.FPred(gosx.OpFIsNaN, y))
		same := tt.And(tt.FCmp(gosx.OpFEq, x, y), tt.Eq(tt.FPred(gosx.OpFIsNeg, x), tt.FPred(gosx.OpFIsNeg, y)))
		ex.Assert(tt.Or(bothNaN, same), id+"/value", "float64 result differs", map[string]interface{}{"goat": gosx.ShowValue(num), "ref": gosx.ShowValue(rv)})
	case ti.Bits == 0:
		x := lift(num, gosx.SFP)
		gb := tt.Not(tt.FCmp(gosx.OpFEq, x, tt.FP(0)))
		ex.Assert(tt.Eq(gb, lift(rv, gosx.SBool)), id+"/value", "bool result differs", map[string]interface{}{"goat": gosx.ShowValue(num), "ref": gosx.ShowValue(rv)})
		ex.Assert(tt.Or(tt.FCmp(gosx.OpFEq, x, tt.FP(0)), tt.FCmp(gosx.OpFEq, x, tt.FP(1))), id+"/canonical-bool", "bool result is neither 0 nor 1", nil)
	default:
		x := lift(num, gosx.SFP)
		y := tt.I2F(lift(rv, ti.Bits), ti.Signed)
		ex.Assert(tt.FCmp(gosx.OpFEq, x, y), id+"/value", "integer result differs", map[string]interface{}{"goat": gosx.ShowValue(num), "ref": gosx.ShowValue(rv)})
	}
}

// exploreProg runs one program on both sides on every feasible path.
func (c *Ctx) exploreProg(p *Prog, st *eqStats, solver string) *gosx.Report {
	return c.Eng.ExploreWith(func(ex *gosx.Exec) {
		ex.InitPackage(c.Eng.Pkg)
		ex.User["monitor_prog"] = p.ID
		goatArgs, refArgs, in := c.mkInputs(ex, p)
		if p.Assume != nil {
			p.Assume(ex, in)
		}
		id := p.Family
		if id == "" {
			id = p.ID
		}
		var res gosx.Value
		var pan *gosx.TargetPanic
		unwound := ""
		if p.Files != nil {
			res, pan, unwound = ex.CallBounded(ex.Func("verifLoadCall"), gosx.MkStringMap(p.Files), "main", "main."+p.Entry, uint64(len(p.Results)), gosx.MkSlice(goatArgs...))
		} else {
			res, pan, unwound = ex.CallBounded(ex.Func("verifEvalCall"), p.Src, "main."+p.Entry, uint64(len(p.Results)), gosx.MkSlice(goatArgs...), uint64(p.Mode))
		}
		if unwound != "" {
			// goatlang ran past the step bound.  If Go's execution of the same text terminates (well) within the same
			// bound, that is a difference in behaviour, not a reduced bound: report it (confirmed natively with a timeout).
			ex.InitPackage(p.ref)
			ex.RefSide = true
			ex.Call(p.ref.Func(p.Entry), refArgs...) // a second overrun ends the path as "unwind"
			ex.RefSide = false
			ex.Assert(ex.TT().Bool(false), id+"/nontermination", "goatlang does not finish ("+unwound+") where Go's execution of the same program terminates", nil)
			return
		}
		if pan != nil {
			ex.Assert(ex.TT().Bool(false), id+"/host-panic", "a Go panic escaped Eval/Call: "+ex.PanicText(pan), nil)
			return
		}
		o := c.decodeOutcome(ex, res)
		if o.hasEvalErr {
			ex.Assert(ex.TT().Bool(false), id+"/rejected", "goatlang rejects a valid program: "+gosx.ShowValue(o.evalErr), nil)
			return
		}
		// reference side
		ex.InitPackage(p.ref)
		ex.RefSide = true
		rres, rpan := ex.Call(p.ref.Func(p.Entry), refArgs...)
		ex.RefSide = false
		c.compareStrings(ex, st, id+"/output", "printed output differs", gosx.MkStr(ex.OutGoat), gosx.MkStr(ex.OutRef))
		if rpan != nil || o.hasCallErr {
			if (rpan != nil) != o.hasCallErr {
				msg := "Go panics but goatlang returns normally"
				if rpan == nil {
					msg = "goatlang fails (" + gosx.ShowValue(o.callErr) + ") but Go returns normally"
				} else {
					msg += " (" + ex.PanicText(rpan) + ")"
				}
				ex.Assert(ex.TT().Bool(false), id+"/outcome", msg, nil)
			} else {
				st.mu.Lock()
				st.bothPanic++
				st.mu.Unlock()
			}
			return
		}
		var rvals []gosx.Value
		switch len(p.Results) {
		case 0:
		case 1:
			rvals = []gosx.Value{rres}
		default:
			rvals = []gosx.Value(rres.(gosx.Tuple))
		}
		if len(o.rets) != len(rvals) {
			ex.Assert(ex.TT().Bool(false), id+"/nresults", fmt.Sprintf("goatlang returned %d values, Go %d", len(o.rets), len(rvals)), nil)
			return
		}
		for i := range rvals {
			c.compareResult(ex, st, fmt.Sprintf("%s/result%d", id, i), o.rets[i], rvals[i], p.Results[i])
		}
		st.mu.Lock()
		st.compared++
		st.mu.Unlock()
	}, solver, 1)
}

// runEquiv explores all programs, replays counterexamples natively (goat: native helper; Go: GOARCH=386 build).
func (c *Ctx) runEquiv(progs []*Prog, solver string, agg *Agg, st *eqStats) {
	kept, rejected := c.loadRefs(progs)
	c.CovAdd("programs_generated", len(progs))
	c.CovAdd("programs_rejected_by_go_types_386", rejected)
	c.mu.Lock()
	c.programs += len(kept)
	c.mu.Unlock()
	type fail struct {
		p *Prog
		f gosx.Failure
	}
	var mu sync.Mutex
	var fails []fail
	parallel(len(kept), c.Eng.Workers, func(i int) {
		p := kept[i]
		rep := c.exploreProg(p, st, solver)
		agg.Add(rep)
		if i%(len(kept)/8+1) == 0 || len(rep.Failures) > 0 {
			c.Sample(map[string]interface{}{"program": p.Src, "entry": p.Entry, "paths": rep.Paths, "paths_by_end": rep.ByEnd, "assertions_discharged": rep.Asserts, "failures": len(rep.Failures)})
		}
		mu.Lock()
		seen := map[string]bool{}
		for _, f := range rep.Failures {
			if seen[f.ID] {
				continue
			}
			seen[f.ID] = true
			fails = append(fails, fail{p, f})
		}
		mu.Unlock()
	})
	// replay (one per program × assertion id, but at most a few per key to keep the run short)
	perKey := map[string]int{}
	var todo []fail
	for _, f := range fails {
		if perKey[f.f.ID] >= 3 {
			continue
		}
		perKey[f.f.ID]++
		todo = append(todo, f)
	}
	c.mu.Lock()
	c.disagree += len(fails)
	c.mu.Unlock()
	parallel(len(todo), 8, func(i int) {
		f := todo[i]
		var ok bool
		var detail map[string]interface{}
		handled := false
		if c.replayOverride != nil {
			ok, detail, handled = c.replayOverride(f.p, f.f)
		}
		if !handled {
			rp := f.p
			if strings.HasSuffix(f.f.ID, "/nontermination") {
				cp := *f.p
				cp.replayTimeout = 5
				rp = &cp
			}
			ok, detail = c.replayProg(rp, f.f.Model)
		}
		c.mu.Lock()
		c.replays++
		c.mu.Unlock()
		if !ok {
			c.mu.Lock()
			c.mismatch++
			c.mu.Unlock()
			fmt.Printf("ENGINE-MISMATCH prog=%s assertion=%s model=%v detail=%v\n%s\n", f.p.ID, f.f.ID, f.f.Model, detail, f.p.Src)
			return
		}
		c.AddViolation(Violation{Key: f.f.ID, What: fmt.Sprintf("%s; program %q inputs %s: goat=%v go=%v", f.f.Msg, oneLine(f.p.Src), modelString(f.f.Model), detail["goat"], detail["go"]),
			Replay: map[string]interface{}{"kind": "prog", "src": f.p.Src, "entry": f.p.Entry, "params": f.p.Params, "results": f.p.Results, "model": f.f.Model, "mode": f.p.Mode, "strlen": f.p.StrLen, "files": f.p.Files, "reffiles": f.p.RefFiles, "assertion": f.f.ID}})
	})
}

func oneLine(s string) string {
	s = strings.TrimPrefix(s, "package main\n")
	return strings.Join(strings.Fields(s), " ")
}

// concreteArg renders the model value of a parameter as a Go literal and as a native-helper argument.
func concreteArg(pa Param, m gosx.Model, strlen map[string]int) (lit string, arg map[string]interface{}) {
	ti := goTypes[pa.Type]
	v := m[pa.Name]
	switch {
	case pa.Type == "string":
		n := strlen[pa.Name]
		b := make([]byte, n)
		for i := range b {
			b[i] = byte(m[fmt.Sprintf("%s_%d", pa.Name, i)])
		}
		return strconv.Quote(string(b)), map[string]interface{}{"T": "string", "B": b}
	case ti.Bits == -1:
		f := math.Float64frombits(v)
		return fmt.Sprintf("math.Float64frombits(%#x)", v), map[string]interface{}{"T": "float64", "V": math.Float64bits(f)}
	case ti.Bits == 0:
		return strconv.FormatBool(v != 0), map[string]interface{}{"T": "bool", "V": v & 1}
	case ti.Signed:
		sh := uint(64 - ti.Bits)
		iv := int64(v<<sh) >> sh
		return fmt.Sprintf("%s(%d)", pa.Type, iv), map[string]interface{}{"T": ti.ArgT, "V": uint64(iv)}
	default:
		uv := v & (1<<uint(ti.Bits) - 1)
		return fmt.Sprintf("%s(%d)", pa.Type, uv), map[string]interface{}{"T": ti.ArgT, "V": uv}
	}
}

type nativeProgResp struct {
	Rets []struct {
		T    int
		Num  uint64
		Str  string
		StrB []byte
	}
	EvalErr, CallErr, Out, HostPanic, Err string
	OutB                                  []byte
}

// UnmarshalJSON restores the exact bytes of texts that JSON strings cannot carry (invalid UTF-8).
func (r *nativeProgResp) fix() {
	if r.OutB != nil {
		r.Out = string(r.OutB)
	}
	for i := range r.Rets {
		if r.Rets[i].StrB != nil {
			r.Rets[i].Str = string(r.Rets[i].StrB)
		}
	}
}

// replayProg runs both sides natively on the model's inputs and reports whether they really disagree.
func (c *Ctx) replayProg(p *Prog, m gosx.Model) (bool, map[string]interface{}) {
	var lits []string
	var args []map[string]interface{}
	for _, pa := range p.Params {
		l, a := concreteArg(pa, m, p.StrLen)
		lits = append(lits, l)
		args = append(args, a)
	}
	// goat side
	var gr nativeProgResp
	req := map[string]interface{}{"Op": "prog", "Prog": map[string]interface{}{"Src": p.Src, "Files": p.Files, "Pkg": "main", "Entry": "main." + p.Entry, "NRes": len(p.Results), "Args": args, "Mode": p.Mode}}
	out, err := c.Native.RunOnce(req, &gr, p.nativeTimeout())
	gr.fix()
	goat := ""
	if err != nil {
		goat = "HOST-CRASH-OR-TIMEOUT: " + truncate(lastLines(out, 3), 300)
	} else if gr.HostPanic != "" {
		goat = "HOST-PANIC: " + gr.HostPanic
	} else if gr.EvalErr != "" {
		goat = "EVAL-ERROR: " + gr.EvalErr
	} else {
		goat = "out=" + strconv.Quote(gr.Out)
		if gr.CallErr != "" {
			goat += " ERROR"
		} else {
			for i, r := range gr.Rets {
				goat += fmt.Sprintf(" ret%d=%s:%s", i, tagName(r.T), r.Str)
			}
		}
	}
	// Go side
	gout, gerr := c.runGo386(p, lits)
	if gerr != nil {
		return false, map[string]interface{}{"goat": goat, "go": "BUILD/RUN FAILURE: " + gerr.Error()}
	}
	detail := map[string]interface{}{"goat": goat, "go": gout}
	if gr.CallErr != "" {
		detail["goat_error"] = gr.CallErr
	}
	return goat != gout, detail
}

func (p *Prog) refFiles() map[string]string {
	if p.RefFiles != nil {
		return p.RefFiles
	}
	return p.Files
}

func (p *Prog) nativeTimeout() int {
	if p.replayTimeout > 0 {
		return p.replayTimeout
	}
	return 60
}

func lastLines(s string, n int) string {
	l := strings.Split(strings.TrimSpace(s), "\n")
	if len(l) > n {
		l = l[:n]
	}
	return strings.Join(l, " | ")
}

func tagName(t int) string {
	switch t & 0xff {
	case 0b10111:
		return "int32"
	case 0b00011:
		return "uint8"
	case 0b10011:
		return "int8"
	case 0b00111:
		return "uint32"
	case 0b11111:
		return "float64"
	case 0b100000:
		return "bool"
	case 0b1000000:
		return "string"
	case 1:
		return "untyped"
	case 0:
		return "nil"
	}
	return fmt.Sprintf("tag%#b", t)
}

func goTagName(gt string) string {
	if ti, ok := goTypes[gt]; ok {
		return tagName(int(ti.Tag))
	}
	return gt
}

var go386Mu sync.Mutex
var go386N int

// runGo386 compiles the program for GOARCH=386 with a main that calls the entry with literal arguments.
func (c *Ctx) runGo386(p *Prog, lits []string) (string, error) {
	go386Mu.Lock()
	go386N++
	n := go386N
	go386Mu.Unlock()
	dir := filepath.Join(c.Work, fmt.Sprintf("go386_%d", n))
	os.MkdirAll(dir, 0o755)
	defer os.RemoveAll(dir)
	src := p.Src
	// the program text must keep its own imports; the driver lives in a second file of the same package
	var sb strings.Builder
	sb.WriteString("package main\n\nimport (\n\t\"fmt\"\n\t\"math\"\n\t\"os\"\n\t\"strconv\"\n)\n\nvar _ = math.Pi\nvar _ = strconv.Itoa\n\n")
	sb.WriteString("func main() {\n\tdefer func() {\n\t\tif r := recover(); r != nil {\n\t\t\tos.Stdout.Sync()\n\t\t\tfmt.Fprint(os.Stderr, \"\\x00PANIC\")\n\t\t\tos.Exit(3)\n\t\t}\n\t}()\n")
	var rets []string
	for i := range p.Results {
		rets = append(rets, fmt.Sprintf("r%d", i))
	}
	call := fmt.Sprintf("%s(%s)", p.Entry, strings.Join(lits, ", "))
	if len(rets) > 0 {
		sb.WriteString("\t" + strings.Join(rets, ", ") + " := " + call + "\n")
	} else {
		sb.WriteString("\t" + call + "\n")
	}
	sb.WriteString("\tfmt.Fprint(os.Stderr, \"\\x00RETS\")\n")
	for i, r := range rets {
		fmt.Fprintf(&sb, "\tfmt.Fprintf(os.Stderr, \" ret%d=%s:%%v\", %s)\n", i, goTagName(p.Results[i]), r)
	}
	sb.WriteString("}\n")
	if strings.Contains(src, "func main()") {
		return "", fmt.Errorf("program defines main")
	}
	if p.Files != nil {
		for name, content := range p.refFiles() {
			if strings.HasPrefix(name, "main/") {
				os.WriteFile(filepath.Join(dir, strings.ReplaceAll(strings.TrimPrefix(name, "main/"), "/", "_")), []byte(content), 0o644)
			}
		}
	} else {
		os.WriteFile(filepath.Join(dir, "prog.go"), []byte(src), 0o644)
	}
	os.WriteFile(filepath.Join(dir, "zz_main.go"), []byte(sb.String()), 0o644)
	os.WriteFile(filepath.Join(dir, "go.mod"), []byte("module verifreplay\n\ngo 1.23\n"), 0o644)
	bin := filepath.Join(dir, "prog386")
	cmd := exec.Command("go", "build", "-o", bin, ".")
	cmd.Dir = dir
	cmd.Env = append(os.Environ(), "GOFLAGS=-mod=mod", "GOPROXY=off", "GOARCH=386", "GOOS=linux", "CGO_ENABLED=0", "GOTOOLCHAIN=local")
	if out, err := cmd.CombinedOutput(); err != nil {
		return "", fmt.Errorf("go build (386): %v: %s", err, out)
	}
	run := exec.Command("timeout", "30", bin)
	var so, se strings.Builder
	run.Stdout, run.Stderr = &so, &se
	run.Run()
	e := se.String()
	switch {
	case strings.Contains(e, "\x00PANIC"):
		return "out=" + strconv.Quote(so.String()) + " ERROR", nil
	case strings.Contains(e, "\x00RETS"):
		return "out=" + strconv.Quote(so.String()) + e[strings.Index(e, "\x00RETS")+5:], nil
	}
	return "", fmt.Errorf("unexpected output from the 386 binary: %q / %q", so.String(), e)
}

var _ = types.Typ
