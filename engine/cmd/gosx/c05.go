package main

import (
	"fmt"
	"math/rand"
	"strings"
)

func init() { checks["C05"] = checkC05 }

// expression trees over int operands a..d and bool operands p,q

type expr struct {
	op    string // "" leaf
	un    string // unary prefix applied to this node ("" none)
	l, r  *expr
	leaf  string
	typ   byte   // 'i' or 'b'
	par   bool   // explicit parentheses although not needed
	konst string // leaf is this constant instead of a parameter
}

var binPrec = map[string]int{
	"*": 5, "/": 5, "%": 5, "<<": 5, ">>": 5, "&": 5, "&^": 5,
	"+": 4, "-": 4, "|": 4, "^": 4,
	"==": 3, "!=": 3, "<": 3, "<=": 3, ">": 3, ">=": 3,
	"&&": 2, "||": 1,
}

var arithOps = []string{"*", "/", "%", "<<", ">>", "&", "&^", "+", "-", "|", "^"}
var cmpOps = []string{"==", "!=", "<", "<=", ">", ">="}
var logicOps = []string{"&&", "||"}

// multiLine makes text() break the line after every binary operator (set around the printing of one program).
var multiLine bool

func (e *expr) text(full bool) string {
	var s string
	if e.op == "" {
		s = e.leaf
	} else {
		ls, rs := e.l.text(full), e.r.text(full)
		wrap := func(c *expr, cs string, right bool) string {
			if c.op == "" || c.un != "" {
				return cs
			}
			need := full || binPrec[c.op] < binPrec[e.op] || (right && binPrec[c.op] == binPrec[e.op]) || c.par
			if need {
				return "(" + cs + ")"
			}
			return cs
		}
		sep := " "
		if multiLine {
			sep = "\n\t\t" // the expression continues on the next line after every binary operator
		}
		s = wrap(e.l, ls, false) + " " + e.op + sep + wrap(e.r, rs, true)
	}
	if e.un != "" {
		if e.op != "" {
			s = "(" + s + ")"
		}
		s = e.un + s
	}
	return s
}

func (e *expr) clone() *expr {
	if e == nil {
		return nil
	}
	c := *e
	c.l, c.r = e.l.clone(), e.r.clone()
	return &c
}

// enumTrees enumerates all well-typed trees with exactly n binary operators and result type typ; leaves are numbered later.
func enumTrees(n int, typ byte) []*expr {
	if n == 0 {
		return []*expr{{typ: typ}}
	}
	var out []*expr
	for k := 0; k < n; k++ {
		type combo struct {
			ops    []string
			lt, rt byte
		}
		var combos []combo
		if typ == 'i' {
			combos = append(combos, combo{arithOps, 'i', 'i'})
		} else {
			combos = append(combos, combo{cmpOps, 'i', 'i'}, combo{[]string{"==", "!="}, 'b', 'b'}, combo{logicOps, 'b', 'b'})
		}
		for _, cb := range combos {
			ls, rs := enumTrees(k, cb.lt), enumTrees(n-1-k, cb.rt)
			for _, op := range cb.ops {
				for _, l := range ls {
					for _, r := range rs {
						out = append(out, &expr{op: op, l: l.clone(), r: r.clone(), typ: typ})
					}
				}
			}
		}
	}
	return out
}

func (e *expr) nodes(f func(*expr)) {
	if e == nil {
		return
	}
	f(e)
	e.l.nodes(f)
	e.r.nodes(f)
}

func nameLeaves(e *expr) (ni, nb int) {
	e.nodes(func(x *expr) {
		if x.op == "" && x.konst != "" {
			x.leaf = x.konst
		} else if x.op == "" {
			if x.typ == 'i' {
				x.leaf = string(rune('a' + ni))
				ni++
			} else {
				x.leaf = string(rune('p' + nb))
				nb++
			}
		}
	})
	return
}

// unaryVariants returns e plus variants with one unary operator placed at each node.
func unaryVariants(e *expr) []*expr {
	out := []*expr{e}
	var idx int
	e.nodes(func(*expr) { idx++ })
	for i := 0; i < idx; i++ {
		var uns []string
		k := 0
		var target *expr
		e.nodes(func(x *expr) {
			if k == i {
				target = x
			}
			k++
		})
		if target.typ == 'i' {
			uns = []string{"-", "^"}
		} else {
			uns = []string{"!"}
		}
		for _, u := range uns {
			c := e.clone()
			k = 0
			c.nodes(func(x *expr) {
				if k == i {
					x.un = u
				}
				k++
			})
			out = append(out, c)
		}
	}
	return out
}

// exprProg wraps the expression in a function: form 0 returns it directly, form 1 stores it in a local first and uses
// it in a condition afterwards (so code FOLLOWING the expression — the store, the branch — is observable too).
func exprProg(id int, e *expr, full bool) *Prog { return exprProgForm(id, e, full, 0) }

func exprProgForm(id int, e *expr, full bool, form int) *Prog {
	ni, nb := nameLeaves(e)
	var params []Param
	var ps []string
	for i := 0; i < ni; i++ {
		n := string(rune('a' + i))
		params = append(params, Param{n, "int"})
		ps = append(ps, n+" int")
	}
	for i := 0; i < nb; i++ {
		n := string(rune('p' + i))
		params = append(params, Param{n, "bool"})
		ps = append(ps, n+" bool")
	}
	rt := "int"
	if e.typ == 'b' {
		rt = "bool"
	}
	multiLine = form == 2
	body := e.text(full)
	multiLine = false
	name := fmt.Sprintf("f%d", id)
	src := fmt.Sprintf("func %s(%s) %s {\n\treturn %s\n}\n", name, strings.Join(ps, ", "), rt, body)
	if form == 1 {
		zero := "0"
		if rt == "bool" {
			zero = "false"
		}
		src = fmt.Sprintf("func %s(%s) %s {\n\tw := %s\n\tv := %s\n\tif v == w {\n\t\treturn w\n\t}\n\treturn v\n}\n", name, strings.Join(ps, ", "), rt, zero, body)
	}
	return &Prog{ID: fmt.Sprintf("expr%d:%s", form, body), Src: "package main\n\n" + src, Entry: name, Params: params, Results: []string{rt}, Shared: true, Family: "C05/" + opClass(e)}
}

// opClass names the operators involved (the known-findings key groups texts by the set of adjacent operator pairs).
func opClass(e *expr) string {
	var pairs []string
	e.nodes(func(x *expr) {
		if x.op == "" {
			return
		}
		for _, ch := range []*expr{x.l, x.r} {
			if ch.op != "" && ch.un == "" {
				pairs = append(pairs, ch.op+"·"+x.op)
			}
		}
		if x.un != "" {
			pairs = append(pairs, x.un+"()")
		}
	})
	if len(pairs) == 0 {
		return "single"
	}
	return strings.Join(pairs, ",")
}

// logicNests: short-circuit operators nested inside each other's operands, with comparison operands whose own operands
// are sums / differences of locals and constants (code the peephole optimizer shortens: the skip distance of the
// enclosing && / || must be that of the shortened code).
func logicNests() []*expr {
	li := func() *expr { return &expr{typ: 'i'} }
	lb := func() *expr { return &expr{typ: 'b'} }
	k := func(c string) *expr { return &expr{typ: 'i', konst: c} }
	bin := func(op string, typ byte, l, r *expr) *expr { return &expr{op: op, typ: typ, l: l, r: r} }
	cmps := []func() *expr{
		func() *expr { return bin(">", 'b', bin("+", 'i', li(), li()), li()) },
		func() *expr { return bin("<", 'b', bin("-", 'i', li(), k("1")), li()) },
		func() *expr { return bin("==", 'b', bin("*", 'i', li(), li()), li()) },
		func() *expr { return bin(">=", 'b', li(), bin("+", 'i', li(), k("1"))) },
		func() *expr { return bin("!=", 'b', bin("+", 'i', k("2"), li()), bin("-", 'i', li(), li())) },
	}
	var out []*expr
	for _, o1 := range logicOps {
		for _, o2 := range logicOps {
			for _, e := range cmps {
				out = append(out,
					bin(o1, 'b', lb(), bin(o2, 'b', e(), lb())),                     // p o1 (E o2 q)
					bin(o1, 'b', lb(), bin(o2, 'b', lb(), e())),                     // p o1 (q o2 E)
					bin(o2, 'b', bin(o1, 'b', lb(), e()), lb()),                     // (p o1 E) o2 q
					bin(o1, 'b', e(), bin(o2, 'b', lb(), cmps[0]())),                // E o1 (p o2 E')
					bin(o1, 'b', lb(), bin(o2, 'b', lb(), bin(o1, 'b', e(), lb()))), // p o1 (q o2 (E o1 r))
				)
			}
		}
	}
	return out
}

func genC05(tier string, seed int64) []*Prog {
	var progs []*Prog
	id := 0
	for _, t := range logicNests() {
		for form := 0; form < 2; form++ {
			progs = append(progs, exprProgForm(id, t.clone(), false, form))
			id++
			progs = append(progs, exprProgForm(id, t.clone(), true, form))
			id++
		}
	}
	addTrees := func(trees []*expr, withUnary bool, sample int, rng *rand.Rand) {
		var all []*expr
		for _, t := range trees {
			if withUnary {
				all = append(all, unaryVariants(t)...)
			} else {
				all = append(all, t)
			}
		}
		if sample > 0 && len(all) > sample {
			rng.Shuffle(len(all), func(i, j int) { all[i], all[j] = all[j], all[i] })
			all = all[:sample]
		}
		for _, t := range all {
			if id%5 == 4 && t.l != nil {
				progs = append(progs, exprProgForm(id, t.clone(), false, 2)) // the same text spread over lines
				id++
			}
			progs = append(progs, exprProgForm(id, t.clone(), false, id%2))
			id++
			// fully parenthesised twin (parentheses override) for trees with ≥2 operators
			if t.l != nil && (t.l.op != "" || t.r.op != "") {
				progs = append(progs, exprProg(id, t.clone(), true))
				id++
			}
		}
	}
	rng := rand.New(rand.NewSource(seed))
	// constant leaves: every 2-operator tree with one int leaf replaced by a literal (code the optimizer fuses with
	// its neighbours: the grouping must survive the fusion)
	for _, typ := range []byte{'i', 'b'} {
		var withConst []*expr
		for _, t := range enumTrees(2, typ) {
			var leaves int
			t.nodes(func(x *expr) {
				if x.op == "" && x.typ == 'i' {
					leaves++
				}
			})
			for li := 0; li < leaves; li++ {
				c := t.clone()
				k := 0
				c.nodes(func(x *expr) {
					if x.op == "" && x.typ == 'i' {
						if k == li {
							x.konst = []string{"1", "3", "2"}[li%3]
						}
						k++
					}
				})
				// an untyped constant as the LEFT operand of a non-constant shift takes its type from the context of the
				// whole shift expression (a corner of the Go spec outside the subset): not generated
				bad := false
				c.nodes(func(x *expr) {
					if (x.op == "<<" || x.op == ">>") && x.l.op == "" && x.l.konst != "" {
						bad = true
					}
				})
				if !bad {
					withConst = append(withConst, c)
				}
			}
		}
		n := 500
		if tier == "thorough" {
			n = 0
		}
		addTrees(withConst, false, n, rng)
	}
	for _, typ := range []byte{'i', 'b'} {
		addTrees(enumTrees(1, typ), true, 0, rng)
		addTrees(enumTrees(2, typ), tier == "thorough", 0, rng)
		if tier == "thorough" {
			addTrees(enumTrees(3, typ), false, 6000, rng)
			addTrees(enumTrees(4, typ), false, 1500, rng)
		} else {
			addTrees(enumTrees(2, typ), true, 400, rng)
			addTrees(enumTrees(3, typ), false, 300, rng)
		}
	}
	return progs
}

func checkC05(tier string, seed int64) int {
	c := newCtx("C05", tier, seed, "translation_validation", nil)
	defer c.Close()
	progs := genC05(tier, seed)
	agg, st := NewAgg(), &eqStats{}
	c.runEquiv(progs, "z3", agg, st)
	agg.Into(c, "")
	c.Cov("rule", "every well-typed expression tree over int operands a..d / bool operands p,q with 1..2 binary operators (quick: + seeded samples with one unary prefix and with 3 operators; thorough: all unary placements, 3 operators sampled 6000, 4 operators sampled 1500), printed once with Go's minimal parentheses and once fully parenthesised; the expression is either returned directly or stored in a local that is then compared and returned (alternating); every fifth tree is also printed with a line break after every binary operator; all operand values symbolic")
	c.Cov("both_sides_fail_paths", st.bothPanic)
	c.Cov("paths_compared", st.compared)
	c.Cov("logic_nest_programs", 4*len(logicNests()))
	c.Assumption("operands are int (int32) and bool parameters; constants occur in the const-leaf family (every 2-operator tree with one int leaf replaced by a literal; quick: 500 sampled per result type) and in the logic-nest family (&&/|| nested in each other's operands over comparisons of sums/differences of locals and constants)")
	c.Assumption("reference semantics: go/types + go/ssa of the same text under GOARCH=386 sizes, interpreted by the same engine")
	return c.Finish(false)
}
