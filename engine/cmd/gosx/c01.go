package main

import (
	"fmt"
	"math/rand"
	"strings"
)

func init() { checks["C01"] = checkC01 }

const c01Decls = `type P struct {
	x    int
	name string
	tags []string
}

func (p *P) bump(k int) int {
	p.x += k
	return p.x
}

type Shape interface {
	Area() int
}

type Rect struct {
	w, h int
}

func (r *Rect) Area() int {
	return r.w * r.h
}

type Sq struct {
	s int
}

func (q *Sq) Area() int {
	return q.s * q.s
}

func add(x, y int) int {
	return x + y
}

func mul(x, y int) int {
	return x * y
}

func sum(base int, rest ...int) int {
	for _, r := range rest {
		base += r
	}
	return base
}

func divmod(x, y int) (int, int) {
	return x / y, x % y
}

func fib(n int) int {
	if n < 2 {
		return n
	}
	return fib(n-1) + fib(n-2)
}

const (
	Red = iota
	Green
	Blue
)

`

var c01Snippets = []struct{ name, code string }{
	{"map-of-structs-compound-assign-nested-loop", "\tm := map[string]*P{\"k\": &P{x: a}}\n\tfor i := 0; i < 2; i++ {\n\t\tfor j := 0; j < 2; j++ {\n\t\t\tm[\"k\"].x += b*i + j\n\t\t}\n\t}\n\tacc += m[\"k\"].x\n\tfmt.Println(\"m\", m[\"k\"].x, len(m))\n"},
	{"slice-of-slices", "\tgrid := [][]int{{a, b}, {b, a}, {1}}\n\tfor _, row := range grid {\n\t\tfor k, v := range row {\n\t\t\tacc += v * (k + 1)\n\t\t}\n\t}\n\tgrid[2] = append(grid[2], a)\n\tfmt.Println(\"grid\", grid, len(grid[2]))\n"},
	{"interfaces", "\tshapes := []Shape{&Rect{w: a, h: 2}, &Sq{s: b}}\n\ttot := 0\n\tfor _, s := range shapes {\n\t\ttot += s.Area()\n\t}\n\tacc += tot\n\tfmt.Println(\"area\", tot)\n"},
	{"string-building", "\ts := \"ab\"\n\tfor i := 0; i < 3; i++ {\n\t\ts += string(rune('a' + i))\n\t}\n\tacc += len(s)\n\tfmt.Println(s, s[1:3], s[0] == 'a')\n"},
	{"byte-wrap-switch", "\tswitch c + 200 {\n\tcase 10:\n\t\tacc += 1\n\tcase 200:\n\t\tacc += 2\n\tdefault:\n\t\tacc += int(c + 200)\n\t}\n\tfmt.Println(\"c\", c+200, c*2)\n"},
	{"float-math", "\tg := math.Floor(f) + math.Abs(f)\n\tfmt.Println(\"g\", g >= f, math.Sqrt(16), math.Max(2, 3), math.Floor(2.5), math.Ceil(2.1))\n"},
	{"strconv", "\tfmt.Println(strconv.Itoa(a)+\"!\", strconv.FormatInt(255, 16))\n\tv, err := strconv.ParseInt(\"42\", 10, 32)\n\tfmt.Println(v, err == nil)\n\tacc += int(v)\n"},
	{"strings-pkg", "\tparts := strings.Split(\"a,b,c\", \",\")\n\tfmt.Println(len(parts), strings.Join(parts, \"-\"), strings.Repeat(\"x\", 3), strings.Contains(\"hello\", \"ell\"), strings.TrimSpace(\"  t \"), strings.ReplaceAll(\"aXbX\", \"X\", \"y\"))\n\tacc += len(parts)\n"},
	{"func-values-in-map", "\tops := map[string]func(int, int) int{\"add\": add, \"mul\": mul}\n\tacc += ops[\"add\"](a, 1) + ops[\"mul\"](b, 2)\n\tfmt.Println(\"ops\", ops[\"add\"](1, 2), len(ops))\n"},
	{"variadic", "\txs := []int{a, b, 3}\n\tacc += sum(1) + sum(1, a) + sum(0, xs...)\n\tfmt.Println(\"sum\", sum(0, xs...))\n"},
	{"multi-return", "\tif b != 0 {\n\t\tq, r := divmod(a, b)\n\t\tacc += q + r\n\t\tfmt.Println(\"dm\", q, r)\n\t}\n\tx, y := a, b\n\tx, y = y, x\n\tacc += x - y\n"},
	{"iota-consts", "\tcol := Green\n\tif p {\n\t\tcol = Blue\n\t}\n\tacc += col*10 + Red\n\tfmt.Println(\"col\", col)\n"},
	{"logic-chains", "\tif a > 0 && b > 0 || p {\n\t\tacc += 1\n\t} else if !(a < b) && !p {\n\t\tacc += 2\n\t} else {\n\t\tacc += 3\n\t}\n"},
	{"map-range-delete", "\tone := map[int]string{a: \"v\"}\n\tfor k, v := range one {\n\t\tfmt.Println(\"kv\", k, v)\n\t\tdelete(one, k)\n\t}\n\tacc += len(one)\n\t_, ok := one[a]\n\tfmt.Println(ok)\n"},
	{"recursion", "\tacc += fib(7)\n\tfmt.Println(\"fib\", fib(10))\n"},
	{"bit-ops", "\tacc += (a<<3 | b) ^ (a >> 1) & 255\n\tfmt.Println(\"bits\", a&b, a|b, a^b, ^a)\n"},
	{"unsigned-and-narrow", "\tu := uint32(a)\n\tu *= 3\n\tu -= 7\n\tn := int8(a)\n\tn += 100\n\tfmt.Println(\"u\", u, u>>1, n, byte(a), int8(c))\n\tacc += int(u % 5)\n"},
	{"errors", "\terr := errors.New(\"bad \" + strconv.Itoa(a))\n\tfmt.Println(err.Error(), err != nil)\n"},
	{"struct-methods-and-aliases", "\tp1 := &P{x: a, name: \"n\"}\n\tp2 := p1\n\tp2.bump(b)\n\tp1.tags = append(p1.tags, \"t\")\n\tacc += p1.x + len(p2.tags)\n\tfmt.Println(\"p\", p1.x, p2.name, len(p2.tags), p1 == p2)\n"},
	{"for-variants", "\tk := 0\n\tfor k < 3 {\n\t\tk++\n\t\tif k == 2 {\n\t\t\tcontinue\n\t\t}\n\t\tacc += k\n\t}\n\tfor {\n\t\tk--\n\t\tif k < 0 {\n\t\t\tbreak\n\t\t}\n\t}\n\tfmt.Println(\"k\", k)\n"},
	{"sprintf", "\tfmt.Println(fmt.Sprintf(\"%d-%s-%v\", 7, \"s\", true), fmt.Sprint(a))\n"},
	{"any-nil-compare", "\tvar x any = a\n\tvar y any\n\tvar z any = p\n\tvar w any = \"s\"\n\tvar e error\n\tif x == nil {\n\t\tacc += 1\n\t}\n\tif x != nil {\n\t\tacc += 2\n\t}\n\tif y == nil {\n\t\tacc += 4\n\t}\n\tif z != nil {\n\t\tacc += 8\n\t}\n\tif w != nil {\n\t\tacc += 16\n\t}\n\tif e == nil {\n\t\tacc += 32\n\t}\n\ty = f\n\tif y != nil {\n\t\tacc += 64\n\t}\n\tfmt.Println(\"any\", x, z, w)\n"},
	{"strings-edge", "\tfmt.Println(len(strings.TrimSpace(\" \\t\\r\\n x y \\v\\f\\n\")), strings.TrimSpace(\"\\u00a0z\\u2003\") == \"z\", strings.TrimRight(\"xaab\", \"ab\"), strings.TrimRight(\"abc\", \"\"), strings.TrimSuffix(\"a.go.go\", \".go\"), strings.TrimSuffix(\"a\", \"abc\"))\n\tfmt.Println(len(strings.Split(\"a,b,,c\", \",\")), len(strings.Split(\"abc\", \"\")), len(strings.Split(\"\", \",\")), strings.Join([]string{}, \"-\"), strings.Join([]string{\"a\"}, \"--\"), strings.Repeat(\"ab\", 0) == \"\", strings.Contains(\"\", \"\"), strings.Contains(\"abc\", \"\"))\n\tfmt.Println(strings.Replace(\"aaaa\", \"a\", \"b\", 2), strings.Replace(\"aaaa\", \"a\", \"b\", -1), strings.Replace(\"aaaa\", \"\", \"-\", 2), strings.ReplaceAll(\"abab\", \"ab\", \"\"), strings.ReplaceAll(\"héé\", \"é\", \"e\"))\n\tacc += len(strings.Split(\"x\\r\\ny\\r\\n\", \"\\n\"))\n"},
	{"strconv-edge", "\tv1, e1 := strconv.ParseInt(\"-80000000\", 16, 32)\n\tv2, e2 := strconv.ParseInt(\"zz\", 36, 32)\n\tv3, e3 := strconv.ParseInt(\"12a\", 10, 32)\n\tv4, e4 := strconv.ParseFloat(\"1e3\", 64)\n\tv5, e5 := strconv.ParseFloat(\"-.5\", 64)\n\t_, e6 := strconv.ParseFloat(\"x\", 64)\n\tfmt.Println(v1, e1 == nil, v2, e2 == nil, v3, e3 == nil, v4, e4 == nil, v5, e5 == nil, e6 == nil)\n\tfmt.Println(strconv.Itoa(-2147483648), strconv.Itoa(0), strconv.FormatInt(-255, 16), strconv.FormatInt(35, 36), strconv.FormatInt(-8, 2), strconv.FormatFloat(1.5, 'f', 2, 64), strconv.FormatFloat(1e21, 'g', -1, 64), strconv.FormatFloat(0.000001, 'e', 3, 64), strconv.FormatFloat(2.5, 'f', 0, 64))\n"},
	{"math-edge", "\tz := f - f\n\tfmt.Println(math.Mod(-7, 3), math.Mod(7, -3), math.Mod(5.5, 2), math.Pow(2, 10), math.Pow(2, -1), math.Pow(0, 0), math.Round(2.5), math.Round(-2.5), math.Round(0.49999999999999994), math.Floor(-0.5), math.Ceil(-0.5), math.Abs(-1.5), math.Signbit(-2.5), math.Signbit(z), math.Hypot(3, 4), math.Sqrt(2) > 1.41, math.Max(3, 7), math.Min(3, 7), math.Log(1), math.Atan(0))\n"},
	{"sprintf-edge", "\tfmt.Println(fmt.Sprintf(\"%5d|%-5d|%05d|%x|%X|%c|%q|%v|%s|%t|%%\", 42, 42, 42, 255, 255, 65, \"hi\", 3, \"s\", true), fmt.Sprintf(\"%6.2f|%.0f|%e|%g|%8.3f\", 3.14159, 2.5, 1234.5678, 1e21, -1.5), fmt.Sprintf(\"%d %s\", 1, \"a\") + fmt.Sprintf(\"%v\", []int{1, 2}))\n"},
	{"range-invalid-utf8", "\tfor _, s := range []string{\"a\\xffb\", \"x\\xc3\\xa9!\"[2:], \"\\xc0\\xafz\", \"é\\xe4\\xb8z\"} {\n\t\tfor i, r := range s {\n\t\t\tfmt.Println(i, r, s[i], len(s))\n\t\t\tacc += i\n\t\t}\n\t}\n"},
	{"float-conv", "\th := float64(a)/2 + 0.25\n\tfmt.Println(\"h\", h, int(math.Floor(h)), float64(c)*1.5)\n"},
}

func genComposite(id int, seed int64) *Prog {
	rng := rand.New(rand.NewSource(seed))
	n := 3 + rng.Intn(4)
	perm := rng.Perm(len(c01Snippets))[:n]
	var b strings.Builder
	var names []string
	for _, i := range perm {
		// each snippet in its own block-free region: wrap in if true { } to scope its variables
		b.WriteString("\tif a == a {\n")
		for _, l := range strings.Split(strings.TrimRight(c01Snippets[i].code, "\n"), "\n") {
			b.WriteString("\t" + l + "\n")
		}
		b.WriteString("\t}\n")
		names = append(names, c01Snippets[i].name)
	}
	name := fmt.Sprintf("f%d", id)
	src := "package main\n\nimport (\n\t\"errors\"\n\t\"fmt\"\n\t\"math\"\n\t\"strconv\"\n\t\"strings\"\n)\n\nvar _ = errors.New\nvar _ = math.Pi\nvar _ = strconv.Itoa\nvar _ = strings.Join\n\n" + c01Decls +
		fmt.Sprintf("func %s(a int, b int, c byte, f float64, p bool) int {\n\tacc := 0\n%s\tfmt.Println(\"acc\", acc)\n\treturn acc\n}\n", name, b.String())
	return &Prog{ID: "composite:" + strings.Join(names, "+"), Src: src, Entry: name,
		Params: []Param{{"a", "int"}, {"b", "int"}, {"c", "byte"}, {"f", "float64"}, {"p", "bool"}}, Results: []string{"int"}, Family: fmt.Sprintf("C01/composite/seed%d", seed)}
}

func checkC01(tier string, seed int64) int {
	c := newCtx("C01", tier, seed, "translation_validation", nil)
	defer c.Close()
	c.Eng.MaxSteps = 8_000_000
	ncomp, per := 60, 12
	if tier == "thorough" {
		ncomp, per = 800, 150
	}
	var progs []*Prog
	prof := map[string]int{}
	add := func(name string, ps []*Prog, n int) {
		step := 1
		if len(ps) > n {
			step = len(ps) / n
		}
		k := 0
		for i := 0; i < len(ps) && k < n; i += step {
			q := *ps[i]
			q.Family = "C01/" + name + "/" + strings.TrimPrefix(q.Family, "C")
			progs = append(progs, &q)
			k++
		}
		prof[name] = k
	}
	var comp []*Prog
	for i := 0; i < ncomp; i++ {
		comp = append(comp, genComposite(i, seed*100000+int64(i)))
	}
	add("composite", comp, ncomp)
	add("expressions", genC05("quick", seed), per)
	add("control", genC06("quick", seed), per)
	var sc, cl, sl, mp []*Prog
	for i := 0; i < per; i++ {
		sc = append(sc, genScopeProg(i, (seed+7)*100000+int64(i)))
		cl = append(cl, genCallProg(i, (seed+7)*100000+int64(i)))
		sl = append(sl, genSliceProg(i, (seed+7)*100000+int64(i), 2+i%5, false))
		mp = append(mp, genMapProg(i, (seed+7)*100000+int64(i), 2+i%4))
	}
	add("scopes", sc, per)
	add("calls", cl, per)
	add("slices", sl, per)
	add("maps", mp, per)
	add("structs", genC12E("quick", seed+7), per)
	add("strings", genC13("quick"), per)
	var pr []*Prog
	for _, p := range genC14("quick") {
		if !strings.Contains(p.ID, "nest3") && !strings.Contains(p.ID, "nest4") && !strings.Contains(p.ID, "nest5") { // listed as known findings of C14
			pr = append(pr, p)
		}
	}
	add("printing", pr, per)
	var stmts []*Prog
	for _, q := range genStmtProgs() {
		if !strings.Contains(q.ID, "tuple-duplicate-target") { // the known finding of C07 is reported there, under its own key
			stmts = append(stmts, q)
		}
	}
	add("statements", stmts, per)
	agg, st := NewAgg(), &eqStats{}
	c.runEquiv(progs, "z3", agg, st)
	agg.Into(c, "")
	c.Cov("profiles", prof)
	c.Cov("paths_compared", st.compared)
	c.Cov("both_sides_fail_paths", st.bothPanic)
	c.Cov("rule", "seeded whole programs: composite programs that put 3–6 feature snippets (of 22: compound assignment to a field of a struct held in a map inside nested loops, slices of slices, interfaces, string building, byte wrap-around in switch tags, math/strconv/strings/fmt/errors calls, func values in maps, variadics with spread, multiple results, iota constants, &&/|| chains, map range+delete, recursion, bit operators, uint32/int8 arithmetic, struct aliases and methods, all for-loop forms, float↔int conversion) into one function with int/byte/float64/bool inputs symbolic; plus samples of the C05–C14 generators (re-seeded); compared with Go on every feasible path")
	c.Assumption("math/strings/strconv shims are called natively by the engine on concrete arguments only (their stdlib internals are not encoded); on symbolic arguments only math.Floor/Ceil/Abs/Sqrt/Round (SMT FP operations) and strconv.Itoa (uninterpreted decimal rendering) are modelled")
	c.Assumption("multi-package layouts are exercised on the goatlang side by C15/C16; the Go reference here is single-package")
	return c.Finish(false)
}
