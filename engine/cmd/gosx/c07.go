package main

import (
	"fmt"
	"math"
	"strings"

	"verif/engine/gosx"
)

func init() { checks["C07"] = checkC07 }

const stmtHelpers = `package main

import "fmt"

var cnt int

type T struct {
	v int
}

func (t *T) get(k int) int {
	return t.v + k
}

func (t *T) two(k int) (int, int) {
	return t.v, k
}

func inc() {
	cnt++
}

func incr() int {
	cnt++
	return cnt
}

func g(x int) int {
	return x + 1
}

func ok(x int) bool {
	return x > 0
}

func two(x int) (int, int) {
	return x, x + 1
}

func three(x int) (int, int, int) {
	return x, x + 1, x + 2
}

func void(x int) {
	if x > 0 {
		return
	}
	fmt.Println("void", x)
}

func mk(x int) []int {
	return []int{x, x + 1}
}

`

// statement forms: every statement must leave the operand stack as it found it, on every path
var stmtForms = []struct{ name, body string }{
	{"blank-assign", "\t_ = g(a)\n\t_, y := two(a)\n\tx, _ := two(b)\n\treturn x + y\n"},
	{"blank-assign-existing", "\tx, y := 0, 0\n\t_, y = two(a)\n\tx, _ = two(b)\n\t_, _ = two(a)\n\treturn x + y\n"},
	{"swap", "\tx, y := a, b\n\tx, y = y, x\n\tx, y = y, x+y\n\treturn x*3 + y\n"},
	{"multi-assign-call", "\tx, y := two(a)\n\tp, q, r := three(b)\n\treturn x + y + p + q + r\n"},
	{"call-stmt-discards", "\ttwo(a)\n\tthree(b)\n\tg(a)\n\tt := &T{v: a}\n\tt.get(b)\n\tt.two(b)\n\treturn a\n"},
	{"for-init-post-calls", "\tcnt = 0\n\tn := 0\n\tfor inc(); cnt < 4; inc() {\n\t\tn += cnt\n\t}\n\treturn n + a\n"},
	{"for-post-call-value", "\tcnt = 0\n\tn := 0\n\tfor i := 0; i < 3; incr() {\n\t\ti++\n\t\tn += i\n\t}\n\treturn n + a\n"},
	{"case-call-tagless", "\tr := 0\n\tswitch {\n\tcase ok(a):\n\t\tr = 1\n\tcase ok(b):\n\t\tr = 2\n\tdefault:\n\t\tr = 3\n\t}\n\treturn r*10 + a\n"},
	{"case-call-tagged", "\tr := 0\n\tswitch a {\n\tcase g(b):\n\t\tr = 1\n\tcase g(g(b)):\n\t\tr = 2\n\t}\n\treturn r*10 + b\n"},
	{"switch-tag-call", "\tr := 0\n\tswitch g(a) {\n\tcase 1:\n\t\tr = 1\n\tcase b:\n\t\tr = 2\n\t}\n\treturn r\n"},
	{"void-return", "\tvoid(a)\n\tvoid(b)\n\treturn a + b\n"},
	{"if-init-call", "\tif v := g(a); v > b {\n\t\treturn v\n\t}\n\tif g(b) > a {\n\t\treturn 1\n\t}\n\treturn 2\n"},
	{"if-init-two", "\tif x, y := two(a); x+y > b {\n\t\treturn x\n\t} else if p, q := two(b); p > q {\n\t\treturn p\n\t}\n\treturn 0\n"},
	{"nested-call-args", "\treturn g(g(a)) + g(g(g(b)))\n"},
	{"return-calls", "\tx, y := pair(a, b)\n\treturn x - y\n"},
	{"logic-calls", "\tr := 0\n\tif ok(a) && ok(b) {\n\t\tr += 1\n\t}\n\tif ok(a) || ok(b) {\n\t\tr += 2\n\t}\n\tif !ok(a) && (ok(b) || ok(a+b)) {\n\t\tr += 4\n\t}\n\treturn r\n"},
	{"logic-value", "\tx := ok(a) && ok(b)\n\ty := ok(a) || ok(b)\n\tr := 0\n\tif x {\n\t\tr++\n\t}\n\tif y {\n\t\tr += 2\n\t}\n\treturn r\n"},
	{"range-call", "\tn := 0\n\tfor _, v := range mk(a) {\n\t\tn += v\n\t}\n\tfor i := range mk(b) {\n\t\tn += i\n\t}\n\tfor range mk(a) {\n\t\tn++\n\t}\n\treturn n\n"},
	{"incdec-places", "\tt := &T{v: a}\n\tt.v++\n\tt.v--\n\tt.v += b\n\ts := []int{a, b}\n\ts[0]++\n\ts[1] -= a\n\tm := map[string]int{}\n\tm[\"k\"]++\n\tm[\"k\"] += b\n\treturn t.v + s[0] + s[1] + m[\"k\"]\n"},
	{"assign-places", "\tt := &T{}\n\ts := make([]int, 2)\n\tm := map[int]int{}\n\tt.v, s[0], m[1] = a, b, a+b\n\ts[1], t.v = t.v, s[0]\n\treturn t.v*100 + s[0]*10 + s[1] + m[1]\n"},
	{"var-decls", "\tvar x int\n\tvar y, z int\n\tvar p, q = two(a)\n\tvar w = g(b)\n\tx, y, z = p, q, w\n\treturn x + y + z\n"},
	{"const-decls", "\tconst k = 3\n\tconst (\n\t\tc0 = iota\n\t\tc1\n\t\tc2\n\t)\n\treturn a*k + c1 + c2 + c0 + b\n"},
	{"early-returns-in-loops", "\tfor i := 0; i < 3; i++ {\n\t\tfor _, v := range mk(i) {\n\t\t\tif v == a {\n\t\t\t\treturn v\n\t\t\t}\n\t\t\tswitch {\n\t\t\tcase v == b:\n\t\t\t\treturn -v\n\t\t\t}\n\t\t}\n\t}\n\treturn 99\n"},
	{"append-forms", "\tvar s []int\n\ts = append(s, a)\n\ts = append(s, a, b)\n\ts = append(s, mk(b)...)\n\tappend(s, 1)\n\tcopy(s, mk(a))\n\tdelete(map[int]int{}, a)\n\treturn len(s) + s[0]\n"},
	{"string-stmts", "\ts := \"\"\n\tfor i := 0; i < 2; i++ {\n\t\ts += \"x\"\n\t\ts = s + \"y\"\n\t}\n\tfmt.Println(s)\n\tfmt.Print(a)\n\tfmt.Print(\"\\n\")\n\treturn len(s)\n"},
	{"func-values", "\tf := g\n\th := func(x int) int {\n\t\treturn x * 2\n\t}\n\tf(a)\n\th(b)\n\treturn f(a) + h(b)\n"},
	{"return-builtins", "\tq := grow(mk(a), b)\n\treturn q[2] + size(q) + len(conv(a))\n"},
	{"expr-stmt-paren", "\t(g(a))\n\treturn (a + (b))\n"},
	{"case-lists", "\tr := 0\n\tswitch a {\n\tcase 1, 2:\n\t\tr = 1\n\tcase g(b), b, 7:\n\t\tr = 2\n\tdefault:\n\t\tr = 3\n\t}\n\tswitch {\n\tcase ok(a), ok(b):\n\t\tr += 10\n\tcase a == b, a+1 == b:\n\t\tr += 20\n\t}\n\tfor i := 0; i < 2; i++ {\n\t\tswitch i + a {\n\t\tcase 0, 1:\n\t\t\tcontinue\n\t\tcase 2, 3:\n\t\t\tbreak\n\t\t}\n\t\tr += 100\n\t}\n\treturn r\n"},
	{"variadic-calls", "\tt := &T{v: a}\n\tsum(a)\n\tsum(a, 1, b)\n\tsum(a, mk(b)...)\n\tt.vs()\n\tt.vs(1, 200)\n\tx := sum(a, b) + t.vs(7, 8, 9)\n\tif x > 3 {\n\t\treturn sum(x, mk(b)...)\n\t}\n\treturn spread(a, b)\n"},
	{"make-forms", "\tm := make(map[string]int, 4)\n\tn := make(map[int]string)\n\ts := make([]int, 2)\n\tm[\"k\"] = a\n\tn[b] = \"v\"\n\ts[1] = b\n\tif a > 0 {\n\t\tq := make(map[int]int, a)\n\t\tq[1] = 2\n\t\treturn len(q) + len(m)\n\t}\n\treturn len(m) + len(n) + len(s) + s[1]\n"},
	{"fresh-locals", "\ts := scale(1.5, 2.5)\n\tu := narrow(200)\n\tr := fresh()\n\tw := narrow(byte(a)) + fresh2(b)\n\tfmt.Println(s, u, r, w)\n\tq := scale(float64(a), 0.5)\n\tr2 := fresh() + fresh2(a)\n\tfmt.Println(q, r2)\n\treturn r + r2\n"},
	{"tuple-assign-phases", "\ts := []int{10, 20, 30}\n\ti := 0\n\ts[i], i = a, 1\n\tfmt.Println(s, i)\n\tj := 2\n\tj, s[j] = 0, b\n\tfmt.Println(s, j)\n\tm := map[int]float64{}\n\tm[1], m[2] = 1, 3\n\tfmt.Println(m[1]/2, m[2]/2)\n\tt := &T{v: 1}\n\tu := t\n\tt.v, t = 7, &T{v: 2}\n\tfmt.Println(t.v, u.v)\n\tk := 0\n\ts[k], s[k+1], k = s[k+1], s[k], 2\n\tfmt.Println(s, k)\n\tx, y := a, b\n\tx, y = y, x+y\n\tp, q := two(a)\n\ts[0], _ = two(b)\n\treturn x + y + p + q + s[0] + i + j + k\n"},
	{"literal-result-counts", "\tx, y := lit2(a)\n\tz := lit1(b)\n\tlit0(a)\n\treturn x + y + z\n"},
	{"tuple-duplicate-target", "\tm := map[int]int{}\n\tm[1], m[1] = a, b\n\tfmt.Println(m[1])\n\treturn m[1]\n"},
	{"blank-params", "\tx := bp(a, b, 5)\n\tbp(1, 2, 3)\n\ty := bq(a, b)\n\treturn x + y + bp(b, a, a)\n"},
}

var stmtExtras = map[string]string{
	"literal-result-counts": "func lit2(v int) (int, int) {\n\th := func(x int) int {\n\t\treturn x + 1\n\t}\n\tv = h(v)\n\treturn two(v)\n}\n\nfunc lit1(v int) int {\n\th := func(x int) (int, int) {\n\t\treturn x, x + 1\n\t}\n\tp, q := h(v)\n\tk := func() {\n\t\tcnt++\n\t}\n\tk()\n\treturn g(p + q)\n}\n\nfunc lit0(v int) {\n\th := func(x int) (int, int, int) {\n\t\treturn three(x)\n\t}\n\th(v)\n\tvoid(v)\n}\n\n",
	"fresh-locals":          "func scale(x, y float64) float64 {\n\tt := x * y\n\tu := t + 0.25\n\treturn u\n}\n\nfunc narrow(x byte) int {\n\tt := x + x\n\tv := int8(x)\n\tv += 100\n\treturn int(t) + int(v)\n}\n\nfunc fresh() int {\n\tn := 7\n\tm := 3\n\tk := 250\n\tk += 10\n\treturn n/2 + m/2 + k\n}\n\nfunc fresh2(p int) int {\n\tn := 9\n\tfor i := 0; i < 2; i++ {\n\t\th := 5\n\t\tn += h / 2\n\t}\n\treturn n/2 + p\n}\n\n",
	"variadic-calls":        "func sum(base int, rest ...int) int {\n\tfor _, r := range rest {\n\t\tbase += r\n\t}\n\treturn base\n}\n\nfunc (t *T) vs(rest ...byte) int {\n\tn := t.v\n\tfor _, r := range rest {\n\t\tn += int(r * r)\n\t}\n\treturn n\n}\n\nfunc spread(x int, y int) int {\n\treturn sum(x, mk(y)...)\n}\n\n",
	"blank-params":          "func bp(_ int, _ int, c int) int {\n\td := c + 1\n\treturn d\n}\n\nfunc bq(_ int, _ int) int {\n\treturn 4\n}\n\n",
}

func genStmtProgs() []*Prog {
	var progs []*Prog
	for i, f := range stmtForms {
		name := fmt.Sprintf("f%d", i)
		extra := ""
		if f.name == "return-calls" {
			extra = "func pair(x int, y int) (int, int) {\n\treturn g(x), g(y)\n}\n\n"
		}
		if f.name == "return-builtins" {
			extra = "func grow(s []int, x int) []int {\n\treturn append(s, x)\n}\n\nfunc size(s []int) int {\n\treturn len(s)\n}\n\nfunc conv(x int) string {\n\treturn string(rune(65 + x%2))\n}\n\n"
		}
		extra += stmtExtras[f.name]
		body := f.body
		if f.name == "append-forms" {
			// a bare append(...) is not valid Go; drop it (kept out of the subset)
			body = strings.Replace(body, "\tappend(s, 1)\n", "", 1)
		}
		if f.name == "expr-stmt-paren" {
			body = strings.Replace(body, "\t(g(a))\n", "\tg(a)\n", 1)
		}
		src := stmtHelpers + extra + fmt.Sprintf("func %s(a int, b int) int {\n%s}\n", name, body)
		progs = append(progs, &Prog{ID: "stmt:" + f.name, Src: src, Entry: name, Params: []Param{{"a", "int"}, {"b", "int"}}, Results: []string{"int"}, Family: "C07/stmt/" + f.name})
	}
	return progs
}

func checkC07(tier string, seed int64) int {
	c := newCtx("C07", tier, seed, "model_checking", nil)
	defer c.Close()
	c.Eng.MaxSteps = 6_000_000
	mon := c.Eng.EnableVMMonitor()
	var progs []*Prog
	add := func(ps []*Prog, n int) {
		step := 1
		if tier != "thorough" && len(ps) > n {
			step = len(ps) / n
		}
		for i := 0; i < len(ps); i += step {
			q := *ps[i]
			q.Family = "C07/" + strings.TrimPrefix(q.Family, "C")
			progs = append(progs, &q)
		}
	}
	add(genStmtProgs(), 1000)
	add(genC06(tier, seed), 500)
	var calls, scopes, slices []*Prog
	n := 150
	if tier == "thorough" {
		n = 1500
	}
	for i := 0; i < n; i++ {
		calls = append(calls, genCallProg(i, seed*100000+int64(i)))
		scopes = append(scopes, genScopeProg(i, seed*100000+int64(i)))
		slices = append(slices, genSliceProg(i, seed*100000+int64(i), 2+i%5, false))
	}
	add(calls, n)
	add(scopes, n/2)
	add(slices, n/2)
	add(genC12E("quick", seed), 30)
	agg, st := NewAgg(), &eqStats{}
	c.replayOverride = func(p *Prog, f gosx.Failure) (bool, map[string]interface{}, bool) {
		if !strings.Contains(f.ID, "/M/") {
			return false, nil, false
		}
		ok, msg := c.replayMonitor(p, f)
		return ok, map[string]interface{}{"goat": msg, "go": "(monitor violation: re-executed with the concrete inputs; the operand-stack discipline is not observable from the Go side)"}, true
	}
	c.runEquiv(progs, "z3", agg, st)
	agg.Into(c, "")
	var ops []string
	for o := range mon.Visited {
		ops = append(ops, o)
	}
	c.Cov("vm_instructions_monitored", mon.Steps)
	c.Cov("opcodes_visited_n", len(ops))
	c.Cov("paths_compared", st.compared)
	c.Cov("rule", "programs: a list of statement forms (blank identifiers, multi-value assignment, calls as for init/post and as case expressions, if/switch with init calls, expression-less return, compound assignment to fields/elements/map entries, &&/|| over calls, range over call results, const/var blocks, func values, case lists, variadic calls incl. spread in return position, blank parameters), the C06 control skeletons, C08 scope programs, C09 call forms, C11 slice histories and C12 struct programs; on every feasible path (inputs symbolic) the monitors m1–m5, m7 run at every iteration of the real dispatch loop: per-pc operand depth equal on every visit and never negative, pc inside the function, `$` operands below the frame's slot count, every instruction's stack effect (calls: −consumed +requested), RETURN k with exactly k values, nothing left when a function body falls off its end, caller locals identical across calls; and the results are compared with Go")
	c.Assumption("CFG paths that no input can take are not covered; stack effects per opcode are the monitor's specification (read off do.go)")
	return c.Finish(false)
}

// replayMonitor re-executes p with the inputs pinned to the model and reports whether the same monitor fires.
func (c *Ctx) replayMonitor(p *Prog, f gosx.Failure) (bool, string) {
	fired := ""
	rep := c.Eng.ExploreWith(func(ex *gosx.Exec) {
		ex.InitPackage(c.Eng.Pkg)
		ex.User["monitor_prog"] = "replay:" + p.ID
		goatArgs, _, in := c.mkInputs(ex, p)
		tt := ex.TT()
		for name, t := range in {
			ex.Assume(pinTo(tt, t, f.Model[name]))
		}
		ex.Call(ex.Func("verifEvalCall"), p.Src, "main."+p.Entry, uint64(len(p.Results)), gosx.MkSlice(goatArgs...), uint64(p.Mode))
	}, "z3", 1)
	for _, g := range rep.Failures {
		if g.ID == f.ID {
			fired = g.Msg
		}
	}
	return fired != "", fired
}

func constLike(tt *gosx.TermTable, t *gosx.Term, v uint64) *gosx.Term {
	switch t.W {
	case gosx.SBool:
		return tt.Bool(v != 0)
	}
	return tt.BV(v, t.W)
}

// pinTo returns the condition "input t has exactly the model value v" (floats: same bits up to NaN payload).
func pinTo(tt *gosx.TermTable, t *gosx.Term, v uint64) *gosx.Term {
	if t.W == gosx.SFP {
		c := tt.FPBits(v)
		if c.F != c.F {
			return tt.FPred(gosx.OpFIsNaN, t)
		}
		return tt.And(tt.FCmp(gosx.OpFEq, t, c), tt.Eq(tt.FPred(gosx.OpFIsNeg, t), tt.Bool(math.Signbit(c.F))))
	}
	return tt.Eq(t, constLike(tt, t, v))
}
