package main

import (
	"os"
	"strings"

	"verif/engine/gosx"
)

func init() { checks["C12"] = checkC12 }

func checkC12(tier string, seed int64) int {
	c := newCtx("C12", tier, seed, "model_checking", nil)
	defer c.Close()
	c.Eng.Cfg = map[string]int{"c12_maxtotal": 3, "c12_histsteps": 3}
	if tier == "thorough" {
		c.Eng.Cfg = map[string]int{"c12_maxtotal": 8, "c12_histsteps": 5}
	}
	c.Eng.MaxPaths = 400000
	c.Eng.Tactic = "(then simplify propagate-values solve-eqs qfbv)"
	names := []string{"verifH_C12_set", "verifH_C12_get", "verifH_C12_assign", "verifH_C12_assign_typed", "verifH_C12_delete", "verifH_C12_copy", "verifH_C12_thresholds", "verifH_C12_history"}
	agg := NewAgg()
	var res []lemmaResult
	for _, n := range names {
		if o := os.Getenv("GOSX_ONLY"); o != "" && !strings.Contains(n, o) {
			continue
		}
		rep := c.Eng.ExploreWith(func(ex *gosx.Exec) {
			ex.InitPackage(c.Eng.Pkg)
			_, pan := ex.Call(ex.Func(n))
			if pan != nil {
				ex.Assert(ex.TT().Bool(false), n+"/escaping-panic", ex.PanicText(pan), nil)
			}
		}, "z3", c.Eng.Workers)
		agg.Add(rep)
		c.Sample(map[string]interface{}{"harness": n, "paths": rep.Paths, "paths_by_end": rep.ByEnd, "assertions_discharged": rep.Asserts, "failures": len(rep.Failures), "wall_s": rep.Wall.Seconds()})
		res = append(res, lemmaResult{Name: n, Report: rep, Failures: rep.Failures})
	}
	c.confirmLemmaFailures(res, func(id string) string { return "hash-table lemma " + strings.TrimPrefix(id, "C12/L/") + " fails" })
	agg.Into(c, "lemmas_")
	// script level (shape E): struct types whose field tables cross the resize thresholds
	if os.Getenv("GOSX_ONLY") == "" {
		eagg, st := NewAgg(), &eqStats{}
		c.Eng.Tactic = ""
		c.runEquiv(genC12E(tier, seed), "z3", eagg, st)
		eagg.Into(c, "structs_")
		c.Cov("structs_paths_compared", st.compared)
		c.Cov("structs_rule", "generated struct types with n fields (n = 0,1,5,12,13,24,25,48,49; thorough also 96,97,192,193,200 — every growth threshold of the field table) of mixed types and 1–4 methods, a type defined from it, histories of 6–11 field writes/compound assignments through two instances and an alias with the touched field printed through all three after every step; field values symbolic")
	}
	c.Cov("bounds", c.Eng.Cfg)
	c.Assumption("inductive step: arbitrary table of size 16 satisfying I1–I5 (see harness/zz_verif_c12.go) with at most c12_maxtotal live entries; one operation with an arbitrary 64-bit key and int32 value")
	c.Assumption("threshold histories: 13/25/37 sequential or strided keys from the empty table (grow 16→32→64) then deletion down to 2 entries (shrink); collision histories: c12_histsteps operations over 5 keys with 2 home slots")
	return c.Finish(false)
}
