package main

import (
	"fmt"
	"strings"
)

type numType struct {
	Go, Ctor, Tag, In string
	Float             bool
	Bits              int
	Signed            bool
}

var numTypes = []numType{
	{"int8", "Int8", "TypeInt8", "verifInt8", false, 8, true},
	{"uint8", "Uint8", "TypeUint8", "verifUint8", false, 8, false},
	{"int32", "Int32", "TypeInt32", "verifInt32", false, 32, true},
	{"uint32", "Uint32", "TypeUint32", "verifUint32", false, 32, false},
	{"float64", "Float64", "TypeFloat64", "verifFloat64", true, 64, true},
}

// genC04Lemmas generates shape-L harnesses for the numeric operators, conversions and VM arms.
func genC04Lemmas() (src string, names []string) {
	var sb strings.Builder
	sb.WriteString("//go:build verif\n\npackage goatlang\n\n")
	sb.WriteString(`
// verifExecTop runs a one-instruction program on a stack holding v and returns the new top of stack.
func verifExec(codes []instruction, stack []Value) (out []Value, panicked bool) {
	vm := &VM{globals: newGlobals(), stack: stack, frame: frame{Codes: codes}}
	panicked = verifCatch(func() { vm.exec() })
	return vm.stack, panicked
}
`)
	add := func(name, body string) {
		fn := "verifH_C04_" + name
		names = append(names, fn)
		fmt.Fprintf(&sb, "func %s() {\n%s}\n\n", fn, body)
		fmt.Fprintf(&sb, "func init() { verifHarnesses[%q] = %s }\n\n", fn, fn)
	}
	type binop struct{ name, meth, op string }
	arith := []binop{{"add", "opAdd", "+"}, {"sub", "opSub", "-"}, {"mul", "opMul", "*"}, {"div", "opDiv", "/"}}
	intOnly := []binop{{"mod", "opMod", "%"}, {"and", "opBitAnd", "&"}, {"or", "opBitOr", "|"}, {"xor", "opBitXor", "^"}, {"lsh", "opBitLsh", "<<"}, {"rsh", "opBitRsh", ">>"}}
	cmp := []binop{{"lt", "opLt", "<"}, {"lte", "opLte", "<="}, {"eq", "opEq", "=="}, {"neq", "opNeq", "!="}}
	for _, t := range numTypes {
		ops := append([]binop{}, arith...)
		if !t.Float {
			ops = append(ops, intOnly...)
		}
		for _, o := range ops {
			id := fmt.Sprintf("C04/L/%s/%s", o.name, t.Go)
			eq := "r.num == float64(want)"
			if t.Float {
				eq = "verifSameF(r.num, want)"
			}
			add(o.name+"_"+t.Go, fmt.Sprintf(`	a, b := %[1]s("a"), %[1]s("b")
	var want %[2]s
	var r Value
	wp := verifCatch(func() { want = a %[3]s b })
	gp := verifCatch(func() { r = %[4]s(a).%[5]s(%[4]s(b)) })
	verifAssert(wp == gp, "%[6]s/panics")
	if !wp && !gp {
		verifAssert(r.t == %[7]s, "%[6]s/type")
		verifAssert(%[8]s, "%[6]s/value")
	}
`, t.In, t.Go, o.op, t.Ctor, o.meth, id, t.Tag, eq))
			// typed ⊕ untyped constant (constant representable in T): adopts T
			if !t.Float && o.name != "lsh" && o.name != "rsh" {
				add(o.name+"_"+t.Go+"_untypedR", fmt.Sprintf(`	a, k := %[1]s("a"), %[1]s("k")
	var want %[2]s
	var r Value
	wp := verifCatch(func() { want = a %[3]s k })
	gp := verifCatch(func() { r = %[4]s(a).%[5]s(newUntypedInt(int(k))) })
	verifAssert(wp == gp, "%[6]s/untypedR/panics")
	if !wp && !gp {
		verifAssert(r.t == %[7]s, "%[6]s/untypedR/type")
		verifAssert(r.num == float64(want), "%[6]s/untypedR/value")
	}
`, t.In, t.Go, o.op, t.Ctor, o.meth, id, t.Tag))
				add(o.name+"_"+t.Go+"_untypedL", fmt.Sprintf(`	a, k := %[1]s("a"), %[1]s("k")
	var want %[2]s
	var r Value
	wp := verifCatch(func() { want = k %[3]s a })
	gp := verifCatch(func() { r = newUntypedInt(int(k)).%[5]s(%[4]s(a)) })
	verifAssert(wp == gp, "%[6]s/untypedL/panics")
	if !wp && !gp {
		verifAssert(r.t == %[7]s, "%[6]s/untypedL/type")
		verifAssert(r.num == float64(want), "%[6]s/untypedL/value")
	}
`, t.In, t.Go, o.op, t.Ctor, o.meth, id, t.Tag))
			}
		}
		for _, o := range cmp {
			id := fmt.Sprintf("C04/L/%s/%s", o.name, t.Go)
			add(o.name+"_"+t.Go, fmt.Sprintf(`	a, b := %[1]s("a"), %[1]s("b")
	r := %[3]s(a).%[4]s(%[3]s(b))
	verifAssert(r.t == TypeBool, "%[5]s/type")
	verifAssert(r.Bool() == (a %[2]s b), "%[5]s/value")
	verifAssert(r.num == 0 || r.num == 1, "%[5]s/canonical")
`, t.In, o.op, t.Ctor, o.meth, id))
		}
		// the VM's comparison arms GT/GTE are implemented by swapping operands
		for _, o := range []struct{ name, code, op string }{{"gt", "codeGt", ">"}, {"gte", "codeGte", ">="}} {
			id := fmt.Sprintf("C04/L/%s/%s", o.name, t.Go)
			add(o.name+"_"+t.Go, fmt.Sprintf(`	a, b := %[1]s("a"), %[1]s("b")
	st, p := verifExec([]instruction{{Code: %[4]s}}, []Value{%[3]s(a), %[3]s(b)})
	verifAssert(!p && len(st) == 1, "%[5]s/shape")
	if !p && len(st) == 1 {
		verifAssert(st[0].t == TypeBool && st[0].Bool() == (a %[2]s b), "%[5]s/value")
	}
`, t.In, o.op, t.Ctor, o.code, id))
		}
		// NEGATE
		{
			id := "C04/L/negate/" + t.Go
			eq := "st[0].num == float64(-a)"
			if t.Float {
				eq = "verifSameF(st[0].num, -a) && (st[0].num != 0 || (1/st[0].num < 0) == (1/(-a) < 0))"
			}
			add("negate_"+t.Go, fmt.Sprintf(`	a := %[1]s("a")
	st, p := verifExec([]instruction{{Code: codeNegate}}, []Value{%[2]s(a)})
	verifAssert(!p && len(st) == 1, "%[3]s/shape")
	if !p && len(st) == 1 {
		verifAssert(st[0].t == %[4]s, "%[3]s/type")
		verifAssert(%[5]s, "%[3]s/value")
	}
`, t.In, t.Ctor, id, t.Tag, eq))
		}
		if !t.Float {
			id := "C04/L/complement/" + t.Go
			add("complement_"+t.Go, fmt.Sprintf(`	a := %[1]s("a")
	st, p := verifExec([]instruction{{Code: codeBitComplement}}, []Value{%[2]s(a)})
	verifAssert(!p && len(st) == 1, "%[3]s/shape")
	if !p && len(st) == 1 {
		verifAssert(st[0].t == %[4]s, "%[3]s/type")
		verifAssert(st[0].num == float64(^a), "%[3]s/value")
	}
`, t.In, t.Ctor, id, t.Tag))
		}
		// INCDEC k / LOCALINCDEC k: x++ , x--, x += k, x -= k with k representable in T
		{
			id := "C04/L/incdec/" + t.Go
			eq := "st[0].num == float64(a + k)"
			kdecl := fmt.Sprintf(`k := %s("k")`, t.In)
			kreg := "reg(k)"
			if t.Float {
				// the constant of x += c on a float is an integer literal here (INCDEC only carries integer operands)
				kdecl = `ki := verifInt8("k"); k := float64(ki)`
				kreg = "reg(ki)"
				eq = "verifSameF(st[0].num, a + k)"
			}
			add("incdec_"+t.Go, fmt.Sprintf(`	a := %[1]s("a")
	%[6]s
	st, p := verifExec([]instruction{{Code: codeIncDec, A: %[7]s}}, []Value{%[2]s(a)})
	verifAssert(!p && len(st) == 1, "%[3]s/shape")
	if !p && len(st) == 1 {
		verifAssert(st[0].t == %[4]s, "%[3]s/type")
		verifAssert(%[5]s, "%[3]s/value")
	}
`, t.In, t.Ctor, id, t.Tag, eq, kdecl, kreg))
			id = "C04/L/localincdec/" + t.Go
			add("localincdec_"+t.Go, fmt.Sprintf(`	a := %[1]s("a")
	%[6]s
	st, p := verifExec([]instruction{{Code: codeLocalIncDec, A: 0, B: %[7]s}}, []Value{%[2]s(a)})
	verifAssert(!p && len(st) == 1, "%[3]s/shape")
	if !p && len(st) == 1 {
		verifAssert(st[0].t == %[4]s, "%[3]s/type")
		verifAssert(%[5]s, "%[3]s/value")
	}
`, t.In, t.Ctor, id, t.Tag, eq, kdecl, kreg))
		}
		// assign(): untyped constant adopts the destination type (constant representable in T)
		{
			id := "C04/L/assign/" + t.Go
			if !t.Float {
				add("assign_"+t.Go, fmt.Sprintf(`	k := %[1]s("k")
	r := newUntypedInt(int(k)).assign(%[2]s)
	verifAssert(r.t == %[2]s, "%[3]s/type")
	verifAssert(r.num == float64(k), "%[3]s/value")
	st, p := verifExec([]instruction{{Code: codeCast, A: reg(%[2]s)}}, []Value{newUntypedInt(int(k))})
	verifAssert(!p && len(st) == 1 && st[0].t == %[2]s && st[0].num == float64(k), "%[3]s/cast")
	// a typed value is left alone by assign to its own type
	v := %[4]s(k)
	w := v.assign(%[2]s)
	verifAssert(w.t == %[2]s && w.num == v.num, "%[3]s/identity")
`, t.In, t.Tag, id, t.Ctor))
			} else {
				add("assign_"+t.Go, fmt.Sprintf(`	k := verifInt32("k")
	r := newUntypedInt(int(k)).assign(TypeFloat64)
	verifAssert(r.t == TypeFloat64, "%[1]s/type")
	verifAssert(r.num == float64(k), "%[1]s/value")
`, id))
			}
		}
		// convert(): explicit conversions T(x) from every source type
		for _, s := range numTypes {
			id := fmt.Sprintf("C04/L/convert/%s_to_%s", s.Go, t.Go)
			assume := ""
			if s.Float && !t.Float {
				lo, hi := "-128", "127"
				switch t.Go {
				case "uint8":
					lo, hi = "0", "255"
				case "int32":
					lo, hi = "-2147483648", "2147483647"
				case "uint32":
					lo, hi = "0", "4294967295"
				}
				// Go leaves out-of-range float→int conversions implementation-defined: only in-range operands are claimed
				assume = fmt.Sprintf("	verifAssume(x > %s-1 && x < %s+1)\n", lo, hi)
			}
			eq := fmt.Sprintf("r.num == float64(%s(x))", t.Go)
			if t.Float && s.Float {
				eq = "verifSameF(r.num, x)"
			}
			add(fmt.Sprintf("convert_%s_to_%s", s.Go, t.Go), fmt.Sprintf(`	x := %[1]s("x")
%[2]s	r := %[3]s(x).convert(%[4]s)
	verifAssert(r.t == %[4]s, "%[5]s/type")
	verifAssert(%[6]s, "%[5]s/value")
	st, p := verifExec([]instruction{{Code: codeConvert, A: reg(%[4]s)}}, []Value{%[3]s(x)})
	verifAssert(!p && len(st) == 1 && st[0].t == r.t && verifSameF(st[0].num, r.num), "%[5]s/arm")
`, s.In, assume, s.Ctor, t.Tag, id, eq))
		}
	}
	return sb.String(), names
}

// c04PositionProgs: the syntactic positions of C04 as Go programs (shape E): typed declarations with constant
// initialisers, constant on either side, compound assignment, ++/--, conversions between all pairs, and constant
// adoption by parameters, results, fields, elements and map values.
func c04PositionProgs() []*Prog {
	var progs []*Prog
	id := 0
	add := func(fam string, params []Param, res string, body string, decls string) {
		name := fmt.Sprintf("f%d", id)
		id++
		var ps []string
		for _, p := range params {
			ps = append(ps, p.Name+" "+p.Type)
		}
		src := fmt.Sprintf("package main\n\n%sfunc %s(%s) %s {\n%s}\n", decls, name, strings.Join(ps, ", "), res, body)
		progs = append(progs, &Prog{ID: "pos:" + fam, Src: src, Entry: name, Params: params, Results: []string{res}, Family: "C04/E/" + fam})
	}
	consts := map[string][]string{
		"int":     {"0", "1", "2147483647", "-2147483648", "100"},
		"byte":    {"0", "1", "255", "200", "128"},
		"int8":    {"0", "1", "127", "-128", "100"},
		"uint32":  {"0", "1", "4294967295", "2147483648", "3000000000"},
		"float64": {"0", "1", "2.5", "1e10", "-3"},
	}
	types5 := []string{"int", "byte", "int8", "uint32", "float64"}
	intOps := []string{"+", "-", "*", "/", "%", "&", "|", "^", "<<", ">>"}
	for _, t := range types5 {
		for _, k := range consts[t] {
			add(t+"/var-typed-const/"+k, []Param{{"a", t}}, t, fmt.Sprintf("\tvar x %s = %s\n\tx += a\n\tx++\n\treturn x\n", t, k), "")
			add(t+"/short-decl-conv/"+k, []Param{{"a", t}}, t, fmt.Sprintf("\tx := %s(%s)\n\ty := x\n\ty -= a\n\ty--\n\treturn y * x\n", t, k), "")
			ops := []string{"+", "-", "*", "/"}
			if t != "float64" {
				ops = intOps
			}
			for _, op := range ops {
				if (op == "<<" || op == ">>") && (strings.HasPrefix(k, "-") || len(k) > 2) {
					continue
				}
				if (op == "/" || op == "%") && k == "0" {
					// x / 0 with a constant divisor is a compile error in Go; keep the constant on the left only
					add(t+"/const-op-var/"+op+k, []Param{{"a", t}}, t, fmt.Sprintf("\treturn %s %s a\n", k, op), "")
					continue
				}
				add(t+"/var-op-const/"+op+k, []Param{{"a", t}}, t, fmt.Sprintf("\treturn a %s %s\n", op, k), "")
				if op != "<<" && op != ">>" {
					add(t+"/const-op-var/"+op+k, []Param{{"a", t}}, t, fmt.Sprintf("\treturn %s %s a\n", k, op), "")
				}
				add(t+"/assign-op-const/"+op+k, []Param{{"a", t}}, t, fmt.Sprintf("\tx := a\n\tx %s= %s\n\treturn x\n", op, k), "")
			}
			// constant adoption: parameter, result, field, element, map value
			reveal := func(x string) string { // an expression whose value shows whether x has type t
				if t == "float64" {
					return x + "/2"
				}
				return x + "/2 + " + x + "*" + x
			}
			add(t+"/adopt/"+k, []Param{{"a", t}}, t,
				fmt.Sprintf("\tp := &H{v: %s}\n\ts := []%s{%s, a}\n\tm := map[string]%s{\"k\": %s}\n\tn := map[int]%s{1: a}\n\tp.v += a\n\ts[0] += a\n\tm[\"k\"] += a\n\tm[\"k\"] = %s\n\tn[1] = %s\n\ts[1] = %s\n\tp.v = %s\n\tm[\"k\"] = %s\n\tn[1] = %s\n\ts[1] = %s\n\tp.v = %s\n\treturn id(%s) + a + p.v + s[0] + s[1] + m[\"k\"] + n[1] + konst()\n", k, t, k, t, k, t, k, k, k, k, reveal("m[\"k\"]"), reveal("n[1]"), reveal("s[1]"), reveal("p.v"), k),
				fmt.Sprintf("type H struct {\n\tv %s\n}\n\nfunc id(x %s) %s {\n\treturn x + x\n}\n\nfunc konst() %s {\n\treturn %s\n}\n\n", t, t, t, t, k))
		}
		for _, s := range types5 {
			if s == "float64" && t != "float64" {
				// out-of-range float→int conversions are implementation-defined in Go: keep the operand small
				add(s+"-to-"+t, []Param{{"a", "int8"}}, t, fmt.Sprintf("\tf := float64(a) / 2\n\tif f < 0 {\n\t\tf = -f\n\t}\n\treturn %s(f) + %s(f)\n", t, t), "")
				continue
			}
			add(s+"-to-"+t, []Param{{"a", s}}, t, fmt.Sprintf("\tx := %s(a)\n\treturn x + x\n", t), "")
		}
		// chains of constant terms on one variable: evaluated left to right in the variable's type (no reassociation:
		// float rounding and integer wrap-around happen after every step)
		for ci, ch := range []string{"a + 1 - 1", "a + 1 + 2", "a - 1 + 1", "a + 100 + 100", "a - 100 - 100", "a + 1 + b - 1", "1 + a + 1", "a*2 + 1 - 1", "(a + 1) - 1 + (b - 2) + 2"} {
			add(fmt.Sprintf("%s/const-chain/%d", t, ci), []Param{{"a", t}, {"b", t}}, t, fmt.Sprintf("\tx := %s\n\tx = x + 1 + 1\n\tx -= 1\n\treturn x\n", ch), "")
		}
		if t == "int" {
			add("int/const-chain/max", []Param{{"a", t}}, t, "\treturn a + 2147483647 + 2147483647\n", "")
			add("int/const-chain/min", []Param{{"a", t}}, t, "\treturn a - 2147483647 - 2147483647 - 2\n", "")
		}
		// comparisons
		for _, op := range []string{"<", "<=", ">", ">=", "==", "!="} {
			add(t+"/cmp/"+op, []Param{{"a", t}, {"b", t}}, "bool", fmt.Sprintf("\treturn a %s b\n", op), "")
			add(t+"/cmp-const/"+op, []Param{{"a", t}}, "bool", fmt.Sprintf("\treturn a %s %s\n", op, consts[t][2]), "")
		}
		add(t+"/neg", []Param{{"a", t}}, t, "\treturn -a\n", "")
		if t != "float64" {
			add(t+"/complement", []Param{{"a", t}}, t, "\treturn ^a\n", "")
			add(t+"/shift-by-var", []Param{{"a", t}, {"n", "byte"}}, t, "\treturn a<<n + a>>n\n", "")
		}
	}
	return progs
}
