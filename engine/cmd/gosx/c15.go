package main

import (
	"strings"

	"verif/engine/gosx"
)

func init() { checks["C15"] = checkC15 }

func checkC15(tier string, seed int64) int {
	c := newCtx("C15", tier, seed, "model_checking", nil)
	defer c.Close()
	c.Eng.Cfg = map[string]int{"c15_packages": 3}
	c.Eng.MaxPaths = 2_000_000
	c.Eng.MaxSteps = 4_000_000
	agg := NewAgg()
	var res []lemmaResult
	run := func(n int) {
		c.Eng.Cfg["c15_packages"] = n
		rep := c.Eng.ExploreWith(func(ex *gosx.Exec) {
			ex.InitPackage(c.Eng.Pkg)
			_, pan := ex.Call(ex.Func("verifC15"))
			if pan != nil {
				ex.Assert(ex.TT().Bool(false), "C15/host-panic/"+ex.PanicOrigin(), "a Go panic escapes Load: "+ex.PanicText(pan), nil)
			}
		}, "z3", c.Eng.Workers)
		agg.Add(rep)
		c.Sample(map[string]interface{}{"packages": n, "paths": rep.Paths, "paths_by_end": rep.ByEnd, "assertions_discharged": rep.Asserts, "failures": len(rep.Failures), "wall_s": rep.Wall.Seconds()})
		res = append(res, lemmaResult{Name: "verifC15", Report: rep, Failures: rep.Failures})
	}
	run(2)
	run(3)
	if tier == "thorough" {
		// four packages: 2^16 import relations; file layouts and import spellings restricted to the plain ones
		// (every layout × spelling is covered with 2 and 3 packages above)
		c.Eng.Cfg["c15_plain_layout_only"] = 1
		run(4)
		delete(c.Eng.Cfg, "c15_plain_layout_only")
	}
	c.confirmLemmaFailures(res, func(id string) string {
		return "package loading obligation " + strings.TrimPrefix(id, "C15/") + " fails"
	})
	agg.Into(c, "")
	c.Assumption("every import relation over 2 and 3 packages plus main (thorough: also 4 packages, with the plain two-file layout and the two plain import spellings only) (one boolean per ordered pair and per main import) × 9 file layouts (plain two-file, vendor/, shortened path, vendor + long path, single file, with _test.go / //go:build ignore / !goat / goat files, conflicting package clause, full path plus a decoy directory at a shorter suffix, vendor/ plus a decoy at the plain path) × 4 import spellings; all branching is on these input bits, so the exploration enumerates the graphs; the real Load runs on an in-memory file tree (tokenize and build-constraint evaluation delegated natively, io/fs modelled over the map)")
	return c.Finish(false)
}
