package main

import (
	"fmt"
	"os"
	"regexp"
	"strings"
	"sync"

	"verif/engine/gosx"
)

func init() { checks["C03"] = checkC03 }

type tokCtx struct {
	name           string
	prefix, suffix []string
	load           bool // the tokens are the only file of package main, loaded with Load
}

func nm(s string) string   { return "(name)\x1f" + s }
func str_(s string) string { return "(string)\x1f" + s }

var tokContexts = []tokCtx{
	{"top", nil, nil, false},
	{"func-body", []string{"func", nm("f"), "(", ")", "{"}, []string{"}"}, false},
	{"func-body-result", []string{"func", nm("f"), "(", ")", "int", "{"}, []string{"}"}, false},
	{"func-params", []string{"func", nm("f"), "("}, []string{")", "{", "}"}, false},
	{"expr", []string{nm("a"), ":="}, nil, false},
	{"call-args", []string{nm("a"), ":=", "(int)\x1f1", ";", nm("f"), "("}, []string{")"}, false},
	{"struct-type", []string{"type", nm("T"), "struct", "{"}, []string{"}"}, false},
	{"switch", []string{"switch", "{"}, []string{"}"}, false},
	{"after-import", []string{"import", str_(`"fmt"`), ";"}, nil, false},
	{"for", []string{"for"}, []string{"{", "}"}, false},
	{"index", []string{nm("a"), ":=", "[]", "int", "{", "(int)\x1f1", "}", ";", nm("a"), "["}, []string{"]"}, false},
	{"method", []string{"type", nm("T"), "struct", "{", "}", ";", "func", "(", nm("t"), "*", nm("T"), ")"}, []string{"{", "}"}, false},
	{"return", []string{"func", nm("f"), "(", ")", "int", "{", "return"}, []string{"}"}, false},
	{"if", []string{"if"}, []string{"{", "}"}, false},
	{"if-else", []string{"if", "true", "{", "}", "else", "{"}, []string{"}"}, false},
	{"import-group", []string{"import", "(", nm("x")}, []string{")"}, false},
	{"case", []string{"switch", nm("a"), "{", "case"}, []string{":", "}"}, false},
	{"range", []string{"for", nm("k"), ":=", "range"}, []string{"{", "}"}, false},
	{"map-literal", []string{nm("a"), ":=", "map", "[", "string", "]", "int", "{"}, []string{"}"}, false},
	{"load-file-start", nil, []string{nm("main")}, true},
	{"load-after-package", []string{"package", nm("main"), ";"}, nil, true},
	{"load-import", []string{"package", nm("main"), ";", "import"}, nil, true},
}

var stageRE = regexp.MustCompile(`^error in (tokenize|parse|load|loadImports|compile|compile \(imports\)|run|run \(imports\)): `)

// tokensToSource renders a forced token sequence as source text for the native replay.
func tokensToSource(ctx tokCtx, forced []string, lines bool) string {
	syms, texts := map[int]string{}, map[int]string{}
	for _, f := range forced {
		var i int
		var v string
		if strings.HasPrefix(f, "tok") {
			fmt.Sscanf(f, "tok%d=", &i)
			v = f[strings.Index(f, "=")+1:]
			syms[i] = v
		} else if strings.HasPrefix(f, "txt") {
			fmt.Sscanf(f, "txt%d=", &i)
			v = f[strings.Index(f, "=")+1:]
			texts[i] = v
		}
	}
	var toks []string
	conc := func(t string) string {
		if i := strings.IndexByte(t, '\x1f'); i >= 0 {
			return t[i+1:]
		}
		return t
	}
	for _, t := range ctx.prefix {
		toks = append(toks, conc(t))
	}
	for i := 0; i < 8; i++ {
		s, ok := syms[i]
		if !ok {
			break
		}
		t, ok := texts[i]
		if !ok {
			t = s
			if alts := textDefault(s); alts != "" {
				t = alts
			}
		}
		toks = append(toks, t)
	}
	for _, t := range ctx.suffix {
		toks = append(toks, conc(t))
	}
	sep := " "
	if lines {
		sep = "\n"
	}
	return strings.Join(toks, sep)
}

func textDefault(sym string) string {
	switch sym {
	case "(name)":
		return "a"
	case "(int)":
		return "0"
	case "(float)":
		return "1.5"
	case "(string)":
		return `"s"`
	case "(char)":
		return `'a'`
	case "(eof)":
		return ""
	}
	return ""
}

func checkC03(tier string, seed int64) int {
	c := newCtx("C03", tier, seed, "model_checking", nil)
	defer c.Close()
	c.Eng.MaxSteps = 400_000
	c.Eng.MaxPaths = 3_000_000
	type job struct {
		ctx      tokCtx
		holes    int
		alphabet string
		lines    bool
	}
	var jobs []job
	for _, cx := range tokContexts {
		switch {
		case cx.name == "top":
			jobs = append(jobs, job{cx, 0, "full", false}, job{cx, 1, "full", false}, job{cx, 2, "full", false}, job{cx, 2, "rep", true})
			if tier == "thorough" {
				jobs = append(jobs, job{cx, 3, "rep", false})
			}
		default:
			jobs = append(jobs, job{cx, 0, "full", false}, job{cx, 1, "full", false})
			if tier == "thorough" {
				jobs = append(jobs, job{cx, 2, "full", false}, job{cx, 3, "rep", false})
			} else if len(cx.prefix) <= 6 {
				jobs = append(jobs, job{cx, 2, "rep", false})
			}
		}
	}
	onlyNesting := os.Getenv("GOSX_ONLY") == "nesting" // debugging aid
	if onlyNesting {
		jobs = nil
	}
	agg := NewAgg()
	var mu sync.Mutex
	type cand struct {
		j      job
		f      gosx.Failure
		forced []string
	}
	var cands []cand
	unwindFront := 0
	stages := map[string]int{}
	for _, j := range jobs {
		j := j
		src := gosx.EncodeTokenSpec(gosx.TokenSpec{Prefix: j.ctx.prefix, Holes: j.holes, Suffix: j.ctx.suffix, Alphabet: j.alphabet, Lines: j.lines})
		rep := c.Eng.ExploreWith(func(ex *gosx.Exec) {
			ex.InitPackage(c.Eng.Pkg)
			td, cd, ei := ex.Input("td", gosx.SBool), ex.Input("cd", gosx.SBool), ex.Input("ei", gosx.SBool)
			var res gosx.Value
			var pan *gosx.TargetPanic
			unwound := ""
			if j.ctx.load {
				res, pan, unwound = ex.CallBounded(ex.Func("verifC03Load"), src, td, cd)
			} else {
				res, pan, unwound = ex.CallBounded(ex.Func("verifC03Eval"), src, td, cd, ei)
			}
			id := "C03/" + j.ctx.name
			if unwound != "" {
				if strings.Contains(unwound, ".exec") {
					// a script that does not terminate is excepted by the property
					ex.EndUnwind(unwound)
				}
				ex.Assert(ex.TT().Bool(false), "C03/host-panic-or-front-end-nontermination/"+j.ctx.name, "tokenize/parse/load/compile does not finish: "+unwound, map[string]interface{}{"forced": ex.LazyForced()})
				return
			}
			if pan != nil {
				where := ex.PanicOrigin()
				ex.Assert(ex.TT().Bool(false), "C03/host-panic/"+where+"/"+panicClass(ex.PanicText(pan)), fmt.Sprintf("a Go panic escapes to the host from %s: %s", where, ex.PanicText(pan)), map[string]interface{}{"forced": ex.LazyForced()})
				return
			}
			if s, ok := gosx.Lit(res); ok && s != "" {
				m := stageRE.FindStringSubmatch(s)
				if m == nil {
					ex.Assert(ex.TT().Bool(false), id+"/stage-prefix", "error without a stage prefix: "+truncate(s, 120), map[string]interface{}{"forced": ex.LazyForced()})
				} else {
					mu.Lock()
					stages[m[1]]++
					mu.Unlock()
				}
			} else {
				mu.Lock()
				stages["ok"]++
				mu.Unlock()
			}
		}, "z3", c.Eng.Workers)
		agg.Add(rep)
		c.Sample(map[string]interface{}{"context": j.ctx.name, "symbolic_tokens": j.holes, "alphabet": j.alphabet, "one_token_per_line": j.lines, "paths": rep.Paths, "paths_by_end": rep.ByEnd, "failures": len(rep.Failures), "wall_s": rep.Wall.Seconds()})
		for k, v := range rep.EndMsgs {
			if strings.HasPrefix(k, "unwind") && !strings.Contains(k, ".exec") {
				unwindFront += v
			}
		}
		seen := map[string]bool{}
		for _, f := range rep.Failures {
			forced, _ := f.Detail["forced"].([]string)
			key := f.ID
			if seen[key] {
				continue
			}
			seen[key] = true
			cands = append(cands, cand{j, f, forced})
		}
	}
	// corpus: every string literal of the repository's test files and a sample of generated programs, as whole
	// source texts through the real tokenizer (natively delegated), with the run options symbolic
	var corpus []string
	corpus = append(corpus, testTableSnippets()...)
	for i, p := range genC06("quick", seed) {
		if i%40 == 0 {
			corpus = append(corpus, p.Src)
		}
	}
	for i := 0; i < 12; i++ {
		corpus = append(corpus, genComposite(i, seed*1000+int64(i)).Src, genCallProg(i, seed*1000+int64(i)).Src, genScopeProg(i, seed*1000+int64(i)).Src)
	}
	// scripts that terminate but whose values are awkward to render or to walk: a fatal stack overflow inside a
	// builtin cannot be recovered by Eval, so the host dies although the script is finite
	corpus = append(corpus,
		"import \"fmt\"\ns := []any{0}\ns[0] = s\nx := fmt.Sprint(s)\nx\n",
		"a := []any{1}\nb := []any{a, 2}\na[0] = b\nprintln(a)\n",
		"import \"fmt\"\nm := map[string]any{\"k\": 1}\nm[\"k\"] = m\nfmt.Println(m)\n",
		"s := []any{0}\ns[0] = s\npanic(s)\n",
		"type N struct {\n\tnext *N\n\tkids []any\n}\nn := &N{}\nn.next = n\nn.kids = append(n.kids, n)\nprintln(n)\npanic(n)\n",
		"import \"fmt\"\ns := []any{0}\nt := []any{s}\ns[0] = t\nu := s == nil\nfmt.Println(u, len(s), s)\n",
		// names of every kind for the odd Call / Func uses of the harness: a function, a variable, a function-typed
		// variable that was never assigned, a type
		"var cb func() int\nvar x = 3\ntype T struct {\n\tv int\n}\nfunc f() int {\n\treturn x\n}\n",
		"var cb func(int) (int, int)\nx := []int{1}\nfunc f(a int, b ...int) (int, int) {\n\treturn a, len(b)\n}\n",
	)
	cagg := NewAgg()
	if onlyNesting {
		corpus = nil
	}
	saveCorpusSteps := c.Eng.MaxSteps
	c.Eng.MaxSteps = 40_000_000 // whole programs: the front end alone needs millions of SSA steps
	parallel(len(corpus), c.Eng.Workers, func(i int) {
		src := corpus[i]
		rep := c.Eng.ExploreWith(func(ex *gosx.Exec) {
			ex.InitPackage(c.Eng.Pkg)
			td, cd, ei := ex.Input("td", gosx.SBool), ex.Input("cd", gosx.SBool), ex.Input("ei", gosx.SBool)
			res, pan, unwound := ex.CallBounded(ex.Func("verifC03Eval"), src, td, cd, ei)
			if unwound != "" {
				if strings.HasPrefix(unwound, "step bound") && strings.Contains(unwound, ".exec") {
					ex.EndUnwind(unwound) // a script that does not terminate is excepted by the property
				}
				ex.Assert(ex.TT().Bool(false), "C03/host-panic-or-front-end-nontermination/corpus", "Eval does not come back: "+unwound, map[string]interface{}{"src": src})
				return
			}
			if pan != nil {
				where := ex.PanicOrigin()
				ex.Assert(ex.TT().Bool(false), "C03/host-panic/"+where+"/"+panicClass(ex.PanicText(pan)), fmt.Sprintf("a Go panic escapes to the host from %s: %s", where, ex.PanicText(pan)), map[string]interface{}{"src": src})
				return
			}
			if s, ok := gosx.Lit(res); ok && s != "" && stageRE.FindStringSubmatch(s) == nil {
				ex.Assert(ex.TT().Bool(false), "C03/corpus/stage-prefix", "error without a stage prefix: "+truncate(s, 120), map[string]interface{}{"src": src})
			}
		}, "z3", 1)
		cagg.Add(rep)
		mu.Lock()
		seen := map[string]bool{}
		for _, f := range rep.Failures {
			if !seen[f.ID] {
				seen[f.ID] = true
				cands = append(cands, cand{job{ctx: tokCtx{name: "corpus"}}, f, []string{"SRC:" + src}})
			}
		}
		mu.Unlock()
	})
	c.Eng.MaxSteps = saveCorpusSteps
	cagg.Into(c, "corpus_")
	c.Cov("corpus_sources", len(corpus))
	// native replay: render the token sequence as source text and run the real Eval
	parallel(len(cands), 8, func(i int) {
		cd := cands[i]
		src := tokensToSource(cd.j.ctx, cd.forced, cd.j.lines)
		if len(cd.forced) == 1 && strings.HasPrefix(cd.forced[0], "SRC:") {
			src = cd.forced[0][4:]
		}
		var resp struct {
			HostPanic string
			Err       string
			Text      string
		}
		hname := "verifC03Eval"
		if cd.j.ctx.load {
			hname = "verifC03Load"
		}
		tmo := 30
		if strings.Contains(cd.f.ID, "nontermination") {
			tmo = 10
		}
		out, err := c.Native.RunOnce(map[string]interface{}{"Op": "harness", "Harness": hname, "Src": src, "Vec": cd.f.Model}, &resp, tmo)
		c.mu.Lock()
		c.replays++
		c.mu.Unlock()
		confirmed := strings.HasPrefix(cd.f.ID, "C03/host-panic") && (err != nil || resp.HostPanic != "")
		if strings.HasSuffix(cd.f.ID, "/stage-prefix") && err == nil && resp.HostPanic == "" && resp.Text != "" && stageRE.FindStringSubmatch(resp.Text) == nil {
			confirmed = true
			resp.HostPanic = "error without stage prefix: " + truncate(resp.Text, 120)
		}
		if !confirmed {
			c.mu.Lock()
			c.mismatch++
			c.mu.Unlock()
			fmt.Printf("NOT-REPRODUCED id=%s src=%q opts=%s native=%+v %s\n", cd.f.ID, src, modelString(cd.f.Model), resp, lastLines(out, 2))
			return
		}
		what := resp.HostPanic
		if what == "" {
			what = lastLines(out, 2)
		}
		c.AddViolation(Violation{Key: cd.f.ID, What: fmt.Sprintf("%s; source %q options %s → %s", cd.f.Msg, src, optString(cd.f.Model), truncate(what, 200)),
			Replay: map[string]interface{}{"kind": "c03", "src": src, "vec": cd.f.Model, "harness": hname, "assertion": cd.f.ID}})
	})
	// parser recursion is bounded by the implementation, not by the host's stack (one inductive step, depth symbolic)
	{
		nagg := NewAgg()
		res := c.runLemmaHarnesses([]string{"verifH_C03_depth_guard", "verifH_C03_type_depth_guard"}, "z3", nagg)
		c.confirmLemmaFailures(res, func(id string) string {
			return "parser recursion is not bounded: " + strings.TrimPrefix(strings.TrimPrefix(id, "C03/depth-guard/"), "C03/")
		})
		nagg.Into(c, "depth_guard_")
		c.Assumption("depth-guard lemmas: parser.Expression is entered once per nesting level of expressions and blocks (Statement, Block, every Nud/Led recurse through it — by reading parse.go/symbol.go) and getType once per nesting level of type expressions and parser.Depth counts its active frames; from an arbitrary symbolic depth d one more level is parsed: the counter is restored on return, ordinary depths (< 1000) are accepted, and depths ≥ 4e6 (beyond what a 1 GB Go stack survived in native runs: 1e6 levels passed, 5e6 died) are refused. Operator / else-if chains (parsed by iteration, walked by the compiler's recursion) need inputs of ≥ 1e5 tokens and are outside what the engine reaches; the tree-depth bound added to parse() for them was checked natively only")
	}
	// awkward directory contents: the package search terminates and errors carry a stage prefix
	{
		tagg := NewAgg()
		c.nonTerminationFails = true
		res := c.runLemmaHarnesses([]string{"verifH_C03_trees"}, "z3", tagg)
		c.nonTerminationFails = false
		c.confirmLemmaFailures(res, func(id string) string {
			return "Load/Eval over an awkward tree: " + strings.TrimPrefix(id, "C03/trees/")
		})
		tagg.Into(c, "trees_")
		c.Assumption("tree harness: 10 directory shapes (imported directory holding only _test.go files / no .go file / only a build-excluded file / a file without package clause / a differently named package / a path naming a file; vendor and shortened-path candidates holding only test files; a Load target holding only a test file) through Load and through Eval with an import; exceeding the step bound in the loader is reported as non-termination and confirmed natively with a timeout")
	}
	agg.Into(c, "")
	c.Cov("stages_reached", stages)
	c.Cov("front_end_unwind_paths", unwindFront)
	c.Cov("contexts", len(tokContexts))
	c.Cov("rule", "tokenize is replaced by an arbitrary token sequence: concrete context tokens + 1..3 symbolic tokens whose Symbol ranges over the real symbols table (+ scanner symbols missing from it; 'rep' = one or two representatives per (Lbp, Nud, Led) class of the real table) and whose Text ranges over a per-class set incl. malformed literals; the run options are symbolic booleans; the real Eval (parse, loadImports, compile, run, treeDump, codeDump) and Call/Func on what it defined run in the engine; tokens are concretised lazily when the parser first reads them, so paths = distinct consumed prefixes")
	c.Assumption("the scanner (text/scanner) itself is not encoded; every reported sequence is rendered as source text and replayed through the real tokenizer natively")
	c.Assumption("non-termination inside the run phase (script loops) is excepted by the property: paths that hit the step bound inside VM.exec are counted as unwind, not as violations; hitting the step bound (4e5 SSA steps) anywhere else — tokenize, parse, load, compile, dumps — is a failed obligation, confirmed natively with a 10 s timeout")
	if unwindFront > 0 {
		fmt.Printf("note: %d paths hit the step bound outside VM.exec (front-end termination not shown for them)\n", unwindFront)
	}
	return c.Finish(false)
}

var digitsRE = regexp.MustCompile(`[0-9]+`)

// panicClass strips numbers from a panic message so that one defect has one key.
func panicClass(s string) string {
	s = digitsRE.ReplaceAllString(s, "N")
	if len(s) > 80 {
		s = s[:80]
	}
	return s
}

func optString(m gosx.Model) string {
	var p []string
	for _, k := range []string{"td", "cd", "ei"} {
		if m[k] != 0 {
			p = append(p, map[string]string{"td": "WithTreeDump", "cd": "WithCodeDump", "ei": "WithEvalImports"}[k])
		}
	}
	if len(p) == 0 {
		return "(none)"
	}
	return strings.Join(p, "+")
}
