package main

import (
	"crypto/sha1"
	"encoding/json"
	"fmt"
	"os"
	"path/filepath"
	"sort"
	"strings"
	"sync"
	"time"

	"verif/engine/gosx"
)

const verifDir = "/verif"

// repoDir is the tree under test and outDir where evidence/, replays/ and .work/ go.  Both are fixed (/repo, /verif)
// for every registered command; the environment overrides exist only so that tools/seedcheck.sh can run a check
// against a scratch worktree carrying a seeded change without touching /repo or the committed evidence.
var (
	repoDir = envOr("GOSX_REPO", "/repo")
	outDir  = envOr("GOSX_OUT", verifDir)
)

func envOr(k, d string) string {
	if v := os.Getenv(k); v != "" {
		return v
	}
	return d
}

// Ctx is the state of one check run.
type Ctx struct {
	ID      string
	Tier    string
	Seed    int64
	Level   string
	Eng     *gosx.Engine
	Native  *gosx.NativeHelper
	Work    string
	Overlay map[string][]byte
	T0      time.Time

	mu                  sync.Mutex
	violations          []Violation
	known               []string
	samples             []interface{}
	cov                 map[string]interface{}
	assume              []string
	kf                  *KnownFindings
	nonTerminationFails bool // lemma harnesses: exceeding the step/depth bound is a failed obligation (C14)
	mismatch            int
	replays             int
	paths               int
	steps               int64
	programs            int
	disagree            int
	validated           int
	refBatch            int
	engineErrors        int
	replayOverride      func(p *Prog, f gosx.Failure) (ok bool, detail map[string]interface{}, handled bool)
}

type Violation struct {
	Key    string                 `json:"key"` // stable identity used by known_findings.json
	What   string                 `json:"what"`
	Replay map[string]interface{} `json:"replay"`
	Path   string                 `json:"-"`
}

type KnownFinding struct {
	Property string `json:"property"`
	Key      string `json:"key"`
	What     string `json:"what"`
}

type KnownFindings struct {
	Known []KnownFinding `json:"known"`
	Fixed []string       `json:"fixed"`
}

func loadKnown() *KnownFindings {
	kf := &KnownFindings{}
	b, err := os.ReadFile(filepath.Join(verifDir, "known_findings.json"))
	if err == nil {
		if jerr := json.Unmarshal(b, kf); jerr != nil {
			fmt.Fprintln(os.Stderr, "known_findings.json:", jerr)
		}
	}
	return kf
}

func harnessOverlay(extra map[string][]byte) map[string][]byte {
	ov := map[string][]byte{}
	files, _ := filepath.Glob(filepath.Join(verifDir, "harness", "*.go"))
	for _, f := range files {
		b, err := os.ReadFile(f)
		if err != nil {
			panic(err)
		}
		ov[filepath.Base(f)] = b
	}
	for k, v := range extra {
		ov[k] = v
	}
	return ov
}

func newCtx(id, tier string, seed int64, level string, extra map[string][]byte) *Ctx {
	c := &Ctx{ID: id, Tier: tier, Seed: seed, Level: level, T0: time.Now(), cov: map[string]interface{}{}, kf: loadKnown()}
	cleanStaleWork()
	c.Work = filepath.Join(outDir, ".work", fmt.Sprintf("%s-%d", id, os.Getpid()))
	os.RemoveAll(c.Work)
	if err := os.MkdirAll(c.Work, 0o755); err != nil {
		fatal(err)
	}
	c.Overlay = harnessOverlay(extra)
	var wg sync.WaitGroup
	var nerr, lerr error
	wg.Add(2)
	go func() {
		defer wg.Done()
		c.Native, nerr = gosx.BuildNative(repoDir, c.Work, c.Overlay)
	}()
	go func() {
		defer wg.Done()
		c.Eng, lerr = gosx.Load(repoDir, c.Overlay)
	}()
	wg.Wait()
	if lerr != nil {
		fatal(fmt.Errorf("loading /repo: %w", lerr))
	}
	if nerr != nil {
		fatal(nerr)
	}
	c.Eng.Native = c.Native
	c.Eng.CollectFuncs = true
	return c
}

func (c *Ctx) Close() {
	if c.Native != nil {
		c.Native.Close()
	}
	if c.Eng != nil {
		c.Eng.CloseSolvers()
	}
	os.RemoveAll(c.Work)
	// remove the .work dir itself when empty
	os.Remove(filepath.Join(outDir, ".work"))
}

func fatal(err error) {
	fmt.Fprintln(os.Stderr, "gosx:", err)
	os.Exit(2)
}

// parallel runs f(i) for i in [0,n) on up to Workers goroutines.
func parallel(n, workers int, f func(i int)) {
	if workers < 1 {
		workers = 1
	}
	var wg sync.WaitGroup
	ch := make(chan int)
	for w := 0; w < workers; w++ {
		wg.Add(1)
		go func() {
			defer wg.Done()
			for i := range ch {
				f(i)
			}
		}()
	}
	for i := 0; i < n; i++ {
		ch <- i
	}
	close(ch)
	wg.Wait()
}

// AddViolation records a replay-confirmed violation (or matches it against the known findings).
func (c *Ctx) AddViolation(v Violation) {
	c.mu.Lock()
	defer c.mu.Unlock()
	if len(v.What) > 600 {
		v.What = v.What[:600] + "… (full text in the replay file)"
	}
	for _, k := range c.kf.Known {
		if k.Property == c.ID && k.Key == v.Key {
			line := fmt.Sprintf("KNOWN-FINDING: property=%s %s — %s", c.ID, v.Key, v.What)
			for _, s := range c.known {
				if s == line {
					return
				}
			}
			c.known = append(c.known, line)
			return
		}
	}
	for _, o := range c.violations {
		if o.Key == v.Key {
			return
		}
	}
	dir := filepath.Join(outDir, "replays", c.ID)
	os.MkdirAll(dir, 0o755)
	h := sha1.Sum([]byte(v.Key))
	v.Path = filepath.Join(dir, fmt.Sprintf("%x.json", h[:6]))
	rec := map[string]interface{}{"property": c.ID, "key": v.Key, "what": v.What, "replay": v.Replay}
	b, _ := json.MarshalIndent(rec, "", " ")
	os.WriteFile(v.Path, b, 0o644)
	c.violations = append(c.violations, v)
}

func (c *Ctx) Sample(s interface{}) {
	c.mu.Lock()
	if len(c.samples) < 12 {
		c.samples = append(c.samples, s)
	}
	c.mu.Unlock()
}

func (c *Ctx) Cov(k string, v interface{}) {
	c.mu.Lock()
	c.cov[k] = v
	c.mu.Unlock()
}

func (c *Ctx) CovAdd(k string, n int) {
	c.mu.Lock()
	old, _ := c.cov[k].(int)
	c.cov[k] = old + n
	c.mu.Unlock()
}

func (c *Ctx) Assumption(s string) {
	c.mu.Lock()
	for _, o := range c.assume {
		if o == s {
			c.mu.Unlock()
			return
		}
	}
	c.assume = append(c.assume, s)
	c.mu.Unlock()
}

// Finish writes the evidence file, prints findings, and returns the exit code.
func (c *Ctx) Finish(inconclusiveAll bool) int {
	st := &c.Eng.Stats
	c.cov["solver"] = map[string]interface{}{
		"kind": c.Eng.SolverKind, "queries": st.Queries, "sat": st.SatN, "unsat": st.UnsatN, "unknown": st.UnknownN, "errors": st.Errors,
		"solver_wall_s": float64(st.Nanos) / 1e9,
	}
	funcs := c.Eng.SortedFuncs(gosx.TargetPath)
	var real []string
	for _, f := range funcs {
		if !strings.Contains(f, "verif") && !strings.Contains(f, "Verif") && !strings.Contains(f, ".init#") {
			real = append(real, strings.TrimPrefix(strings.ReplaceAll(f, gosx.TargetPath, "goatlang"), ""))
		}
	}
	c.cov["functions_encoded"] = real
	c.cov["functions_encoded_n"] = len(real)
	ext := map[string]int{}
	for k, v := range c.Eng.ExtUsed {
		ext[k] = v
	}
	c.cov["delegations_used"] = ext
	c.cov["samples"] = c.samples
	if len(c.samples) == 0 {
		c.cov["samples"] = []interface{}{"(no sample recorded)"}
	}
	switch c.Level {
	case "model_checking":
		c.cov["states"] = c.paths
		c.cov["transitions"] = int(c.steps)
		c.cov["traces_validated_against_impl"] = c.validated + c.replays
		c.cov["states_transitions_meaning"] = "states = symbolic paths explored (each stands for all inputs satisfying its path condition); transitions = SSA instructions of the real code executed symbolically; traces_validated = native runs of the real build (translator validation vectors + counterexample replays)"
	case "translation_validation":
		c.cov["programs"] = c.programs
		c.cov["disagreements_checked"] = c.disagree
	}
	c.cov["replays_run"] = c.replays
	c.cov["engine_mismatch"] = c.mismatch
	var kn []string
	kn = append(kn, c.known...)
	sort.Strings(kn)
	if kn == nil {
		kn = []string{}
	}
	c.cov["known_findings_matched"] = kn
	if c.assume == nil {
		c.assume = []string{}
	}
	ev := map[string]interface{}{
		"property_id": c.ID, "tier": c.Tier, "seed": c.Seed, "level": c.Level, "coverage": c.cov,
		"assumptions": c.assume, "wall_s": time.Since(c.T0).Seconds(), "violations": len(c.violations),
	}
	os.MkdirAll(filepath.Join(outDir, "evidence"), 0o755)
	b, _ := json.MarshalIndent(ev, "", " ")
	if err := os.WriteFile(filepath.Join(outDir, "evidence", c.ID+".json"), b, 0o644); err != nil {
		fatal(err)
	}
	for _, k := range kn {
		fmt.Println(k)
	}
	for _, v := range c.violations {
		fmt.Printf("VIOLATION property=%s replay=%s\n", c.ID, v.Path)
		fmt.Printf("  %s — %s\n", v.Key, v.What)
	}
	fmt.Printf("%s %s: %d violations, %d known findings, solver queries=%d (unsat %d, sat %d, unknown %d) in %.1fs, wall %.1fs\n",
		c.ID, c.Tier, len(c.violations), len(kn), st.Queries, st.UnsatN, st.SatN, st.UnknownN, float64(st.Nanos)/1e9, time.Since(c.T0).Seconds())
	if len(c.violations) > 0 {
		return 1
	}
	if c.engineErrors > 0 {
		fmt.Printf("ENGINE-ERROR property=%s %d paths ended in an engine-internal error (nothing is claimed for them; see evidence path_end_reasons)\n", c.ID, c.engineErrors)
		return 2
	}
	if inconclusiveAll {
		fmt.Printf("INCONCLUSIVE property=%s nothing could be decided\n", c.ID)
		return 3
	}
	return 0
}

// mergeReport adds exploration statistics to the coverage map.
type Agg struct {
	mu         sync.Mutex
	Paths      int
	ByEnd      map[string]int
	Incomplete map[string]int
	EndMsgs    map[string]int
	Asserts    int
	Steps      int64
	Truncated  int
	RefAssumes map[string]int
	Tasks      int
	MaxDec     int
}

func NewAgg() *Agg {
	return &Agg{ByEnd: map[string]int{}, Incomplete: map[string]int{}, EndMsgs: map[string]int{}, RefAssumes: map[string]int{}}
}

func (a *Agg) Add(r *gosx.Report) {
	a.mu.Lock()
	defer a.mu.Unlock()
	a.Tasks++
	a.Paths += r.Paths
	for k, v := range r.ByEnd {
		a.ByEnd[k] += v
	}
	for k, v := range r.Incomplete {
		a.Incomplete[k] += v
	}
	for k, v := range r.EndMsgs {
		a.EndMsgs[k] += v
	}
	for k, v := range r.RefAssumes {
		a.RefAssumes[k] += v
	}
	a.Asserts += r.Asserts
	a.Steps += r.Steps
	if r.Truncated {
		a.Truncated++
	}
	if r.MaxDec > a.MaxDec {
		a.MaxDec = r.MaxDec
	}
}

func topN(m map[string]int, n int) map[string]int {
	type kv struct {
		k string
		v int
	}
	var l []kv
	for k, v := range m {
		l = append(l, kv{k, v})
	}
	sort.Slice(l, func(i, j int) bool { return l[i].v > l[j].v || (l[i].v == l[j].v && l[i].k < l[j].k) })
	r := map[string]int{}
	for i, e := range l {
		if i >= n {
			break
		}
		r[e.k] = e.v
	}
	return r
}

func (a *Agg) Into(c *Ctx, prefix string) {
	c.mu.Lock()
	c.paths += a.Paths
	c.engineErrors += a.ByEnd["engine-error"]
	c.steps += a.Steps
	c.mu.Unlock()
	c.Cov(prefix+"explorations", a.Tasks)
	c.Cov(prefix+"paths", a.Paths)
	c.Cov(prefix+"paths_by_end", a.ByEnd)
	c.Cov(prefix+"assertions_discharged_unsat", a.Asserts)
	c.Cov(prefix+"ssa_steps", a.Steps)
	c.Cov(prefix+"explorations_truncated", a.Truncated)
	c.Cov(prefix+"max_decisions_on_a_path", a.MaxDec)
	if len(a.Incomplete) > 0 {
		c.Cov(prefix+"incomplete", topN(a.Incomplete, 12))
	}
	if len(a.EndMsgs) > 0 {
		c.Cov(prefix+"path_end_reasons", topN(a.EndMsgs, 12))
	}
	// paths the engine could not follow carry no claim: say so on the console too (they are listed in the evidence)
	if n := a.ByEnd["unsupported"]; n > 0 {
		var why []string
		for k, v := range a.EndMsgs {
			if strings.HasPrefix(k, "unsupported") && !strings.Contains(k, "environment function") {
				why = append(why, fmt.Sprintf("%s ×%d", strings.TrimPrefix(k, "unsupported: "), v))
			}
		}
		sort.Strings(why)
		if len(why) > 0 {
			fmt.Printf("note: %s%d paths ended unsupported (no claim for them): %s\n", prefix, n, truncate(strings.Join(why, "; "), 300))
		}
	}
	if len(a.RefAssumes) > 0 {
		c.Cov(prefix+"reference_side_assumptions", a.RefAssumes)
	}
}

// cleanStaleWork removes scratch directories left behind by runs that were killed.
func cleanStaleWork() {
	ents, _ := os.ReadDir(filepath.Join(outDir, ".work"))
	for _, e := range ents {
		name := e.Name()
		i := strings.LastIndex(name, "-")
		if i < 0 || !e.IsDir() {
			continue
		}
		pid := 0
		fmt.Sscan(name[i+1:], &pid)
		if pid <= 0 {
			continue
		}
		if _, err := os.Stat(fmt.Sprintf("/proc/%d", pid)); err != nil {
			os.RemoveAll(filepath.Join(outDir, ".work", name))
		}
	}
}
