package main

import (
	"fmt"
	"regexp"
	"strings"
	"sync"

	"verif/engine/gosx"
)

func init() { checks["C20"] = checkC20 }

type chainProg struct {
	src       string
	depth     int
	fname     []string      // display name of level i ("main.f3" or "main.T.m3")
	callLine  []int         // line of the call from level i to level i+1
	faultLine []map[int]int // level → fault kind → line
	variant   string
	files     map[string]string // when set: the chain lives in an imported package, loaded with Load (public API only)
}

var faultKinds = []string{"index", "divzero", "panic", "nilstruct", "nilfunc", "nilmap", "slicebounds"}

// genChain builds f0 → f1 → … → f(depth-1); level d faults with kind sel when the symbolic inputs say so.
func genChain(depth int, variant string) *chainProg {
	p := &chainProg{depth: depth, variant: variant}
	var sb strings.Builder
	line := 0
	w := func(s string) {
		sb.WriteString(s + "\n")
		line++
	}
	imported := variant == "imported"
	pkg, fpre, mpre := "main", "f", "m"
	if imported {
		// the chain is package util at import path lib/util (path differs from the package name)
		pkg, fpre, mpre = "util", "F", "M"
	}
	w("package " + pkg)
	w("")
	w("type T struct {")
	w("\tv int")
	w("}")
	w("")
	if variant == "emptycalls" {
		w("func noop() {")
		w("}")
		w("")
		w("func noop1(x int) {")
		w("}")
		w("")
		w("func (t *T) touch() {")
		w("}")
		w("")
	}
	if imported {
		w("func NewT() *T {")
		w("\treturn &T{}")
		w("}")
		w("")
	}
	p.callLine = make([]int, depth)
	p.faultLine = make([]map[int]int, depth)
	p.fname = make([]string, depth)
	for i := 0; i < depth; i++ {
		method := i%3 == 1
		if method {
			p.fname[i] = fmt.Sprintf("%s.T.%s%d", pkg, mpre, i)
			w(fmt.Sprintf("func (t *T) %s%d(sel int, d int, s []int) int {", mpre, i))
		} else {
			p.fname[i] = fmt.Sprintf("%s.%s%d", pkg, fpre, i)
			w(fmt.Sprintf("func %s%d(sel int, d int, s []int, t *T) int {", fpre, i))
		}
		p.faultLine[i] = map[int]int{}
		switch variant {
		case "lambda":
			// a function literal earlier in the body: later faults and call sites still belong to the enclosing function
			w("\th := func(x int) int {")
			w("\t\treturn x + 1")
			w("\t}")
			w("\tt.v += h(1)")
		case "emptycalls":
			// calls that have RETURNED (to functions with empty bodies, with and without parameters) are not active
			w("\tnoop()")
			w("\tnoop1(d)")
			w("\tt.touch()")
		case "rawstring":
			// multi-line tokens before the fault: a raw string literal and a block comment spanning lines
			w("\tnote := `first")
			w("second")
			w("third`")
			w("\t/* a comment")
			w("\t   over two lines */")
			w("\tt.v += len(note)")
		}
		w(fmt.Sprintf("\tif d == %d {", i))
		switch variant {
		case "loop":
			w("\t\tfor k := 0; k < 2; k++ {")
			w("\t\t\tt.v += k")
			w("\t\t}")
		case "switch":
			w("\t\tswitch {")
			w("\t\tcase sel > 100:")
			w("\t\t\tt.v++")
			w("\t\t}")
		}
		w("\t\tif sel == 0 {")
		w("\t\t\treturn s[5]")
		p.faultLine[i][0] = line
		w("\t\t}")
		w("\t\tif sel == 1 {")
		w(fmt.Sprintf("\t\t\treturn 1 / (d - %d)", i))
		p.faultLine[i][1] = line
		w("\t\t}")
		w("\t\tif sel == 2 {")
		w("\t\t\tpanic(\"boom\")")
		p.faultLine[i][2] = line
		w("\t\t}")
		w("\t\tif sel == 3 {")
		w("\t\t\tvar q *T")
		w("\t\t\treturn q.v")
		p.faultLine[i][3] = line
		w("\t\t}")
		w("\t\tif sel == 4 {")
		w("\t\t\tvar g func(int) int")
		w("\t\t\treturn g(1)")
		p.faultLine[i][4] = line
		w("\t\t}")
		w("\t\tif sel == 5 {")
		w("\t\t\tvar mm map[string]int")
		w("\t\t\tmm[\"k\"] = 1")
		p.faultLine[i][5] = line
		w("\t\t}")
		w("\t\tif sel == 6 {")
		w("\t\t\treturn len(s[1:9])")
		p.faultLine[i][6] = line
		w("\t\t}")
		w("\t}")
		if i+1 < depth {
			nextMethod := (i+1)%3 == 1
			var call string
			if nextMethod {
				call = fmt.Sprintf("t.%s%d(sel, d, s)", mpre, i+1)
			} else {
				call = fmt.Sprintf("%s%d(sel, d, s, t)", fpre, i+1)
			}
			switch variant {
			case "multiline":
				// the callee name and the opening parenthesis stay on one line; arguments continue below
				if nextMethod {
					w(fmt.Sprintf("\tr := t.m%d(sel,", i+1))
					p.callLine[i] = line
					w("\t\td, s)")
				} else {
					w(fmt.Sprintf("\tr := f%d(sel,", i+1))
					p.callLine[i] = line
					w("\t\td, s, t)")
				}
				w("\treturn r + 1")
			case "multiline3":
				// a method call continued after the dot (fluent style): the call is on the line of the method name
				if nextMethod {
					w("\tr := t.")
					w(fmt.Sprintf("\t\t%s%d(sel, d, s)", mpre, i+1))
					p.callLine[i] = line
				} else {
					w(fmt.Sprintf("\tr := %s%d(sel,", fpre, i+1))
					p.callLine[i] = line
					w("\t\td, s, t)")
				}
				w("\treturn r + 1")
			case "multiline2":
				// the argument list starts on the line after the opening parenthesis
				if nextMethod {
					w(fmt.Sprintf("\tr := t.m%d(", i+1))
					p.callLine[i] = line
					w("\t\tsel, d, s)")
				} else {
					w(fmt.Sprintf("\tr := f%d(", i+1))
					p.callLine[i] = line
					w("\t\tsel, d, s, t)")
				}
				w("\treturn r + 1")
			case "stmt":
				w("\t" + call)
				p.callLine[i] = line
				w("\treturn 1")
			default:
				w("\treturn " + call + " + 1")
				p.callLine[i] = line
			}
		} else {
			w("\treturn 0")
		}
		w("}")
		w("")
	}
	if imported {
		p.files = map[string]string{
			"lib/util/util.go": sb.String(),
			"main/main.go":     "package main\n\nimport \"lib/util\"\n\nfunc Entry(sel int, d int) int {\n\treturn util.F0(sel, d, []int{1, 2, 3}, util.NewT())\n}\n",
		}
		p.callLine = append(p.callLine, 6)
		p.src = sb.String()
		return p
	}
	w("func Entry(sel int, d int) int {")
	w("\treturn f0(sel, d, []int{1, 2, 3}, &T{})")
	p.callLine = append(p.callLine, line) // Entry's call to f0 (index depth)
	w("}")
	p.src = sb.String()
	return p
}

var btLineRE = regexp.MustCompile(`^\t?(\S+)\(\.\.\.\) ([^:]+):(\d+):\d+`)

func checkC20(tier string, seed int64) int {
	c := newCtx("C20", tier, seed, "translation_validation", nil)
	defer c.Close()
	c.Eng.MaxSteps = 8_000_000
	depths := []int{1, 2, 4, 7}
	if tier == "thorough" {
		depths = []int{1, 2, 3, 5, 8, 13, 21, 30}
	}
	var chains []*chainProg
	for _, d := range depths {
		for _, v := range []string{"plain", "loop", "switch", "stmt", "multiline", "multiline2", "multiline3", "lambda", "rawstring", "imported", "emptycalls"} {
			chains = append(chains, genChain(d, v))
		}
	}
	agg, st := NewAgg(), &eqStats{}
	var mu sync.Mutex
	type fail struct {
		p *chainProg
		f gosx.Failure
	}
	var fails []fail
	c.mu.Lock()
	c.programs += len(chains)
	c.mu.Unlock()
	parallel(len(chains), c.Eng.Workers, func(i int) {
		p := chains[i]
		rep := c.Eng.ExploreWith(func(ex *gosx.Exec) {
			ex.InitPackage(c.Eng.Pkg)
			tt := ex.TT()
			sel, d := ex.Input("sel", 32), ex.Input("d", 32)
			ex.Assume(tt.Cmp(gosx.OpULt, sel, tt.BV(uint64(len(faultKinds)), 32)))
			ex.Assume(tt.Cmp(gosx.OpULt, d, tt.BV(uint64(p.depth), 32)))
			vs, _ := ex.Call(ex.Func("Int32"), sel)
			vd, _ := ex.Call(ex.Func("Int32"), d)
			texts := map[int]string{}
			modes := []int{0, 1, 2}
			if p.files != nil {
				modes = []int{0} // Load is reachable through the public pipeline only
			}
			for _, mode := range modes {
				var res gosx.Value
				var pan *gosx.TargetPanic
				if p.files != nil {
					res, pan = ex.Call(ex.Func("verifLoadCall"), gosx.MkStringMap(p.files), "main", "main.Entry", uint64(1), gosx.MkSlice(vs, vd))
				} else {
					res, pan = ex.Call(ex.Func("verifEvalCall"), p.src, "main.Entry", uint64(1), gosx.MkSlice(vs, vd), uint64(mode))
				}
				ex.OutGoat = nil
				if pan != nil {
					ex.Assert(tt.Bool(false), "C20/host-panic", ex.PanicText(pan), nil)
					return
				}
				o := c.decodeOutcome(ex, res)
				if !o.hasCallErr {
					ex.Assert(tt.Bool(false), fmt.Sprintf("C20/%s/no-error", p.variant), "the planted fault did not produce an error", nil)
					return
				}
				s, _ := gosx.Lit(o.callErr)
				texts[mode] = s
			}
			// which fault fired is concrete on this path: read it back from the model-independent decisions
			dv, sv := ex.ConcreteOf(d), ex.ConcreteOf(sel)
			if dv < 0 || sv < 0 {
				ex.Incomplete("fault selector not concrete on the path")
				return
			}
			id := fmt.Sprintf("C20/%s/%s", p.variant, faultKinds[sv])
			for _, mode := range modes {
				lines := strings.Split(texts[mode], "\n")
				m := btLineRE.FindStringSubmatch(lines[0])
				mname := []string{"public", "opt-on", "opt-off"}[mode]
				if m == nil {
					ex.Assert(tt.Bool(false), id+"/first-line-shape/"+mname, "first line of the error has no position: "+truncate(lines[0], 100), nil)
					continue
				}
				if m[1] != p.fname[dv] || m[3] != fmt.Sprint(p.faultLine[dv][int(sv)]) {
					ex.Assert(tt.Bool(false), id+"/fault-position/"+mname, fmt.Sprintf("fault in %s at line %d reported as %s line %s", p.fname[dv], p.faultLine[dv][int(sv)], m[1], m[3]), map[string]interface{}{"error": texts[mode]})
				}
				// active calls, innermost first: level dv-1 … 0, then Entry
				want := []string{}
				for k := int(dv) - 1; k >= 0; k-- {
					want = append(want, fmt.Sprintf("%s:%d", p.fname[k], p.callLine[k]))
				}
				want = append(want, fmt.Sprintf("main.Entry:%d", p.callLine[p.depth]))
				var got []string
				for _, l := range lines[1:] {
					if bm := btLineRE.FindStringSubmatch(l); bm != nil {
						got = append(got, bm[1]+":"+bm[3])
					}
				}
				if strings.Join(got, " ") != strings.Join(want, " ") {
					ex.Assert(tt.Bool(false), id+"/backtrace/"+mname, fmt.Sprintf("backtrace %v, expected %v", got, want), map[string]interface{}{"error": texts[mode]})
				}
			}
			// on vs off: the same (function, line) sequence (columns and opcode mnemonics legitimately differ)
			if len(modes) == 3 && posSeq(texts[1]) != posSeq(texts[2]) {
				ex.Assert(tt.Bool(false), id+"/optimizer-on-off-differ", "reported functions/lines differ between optimizer on and off", map[string]interface{}{"on": texts[1], "off": texts[2]})
			}
			st.mu.Lock()
			st.compared++
			st.mu.Unlock()
		}, "z3", 1)
		agg.Add(rep)
		if i%5 == 0 {
			c.Sample(map[string]interface{}{"variant": p.variant, "depth": p.depth, "paths": rep.Paths, "failures": len(rep.Failures), "program_head": truncate(p.src, 600)})
		}
		mu.Lock()
		seen := map[string]bool{}
		for _, f := range rep.Failures {
			if !seen[f.ID] {
				seen[f.ID] = true
				fails = append(fails, fail{p, f})
			}
		}
		mu.Unlock()
	})
	c.mu.Lock()
	c.disagree += len(fails)
	c.mu.Unlock()
	done := map[string]bool{}
	for _, f := range fails {
		if done[f.f.ID] {
			continue
		}
		done[f.f.ID] = true
		// native replay: run the three modes and re-evaluate the same expectations on the real error text
		ok, detail := c.replayC20(f.p, f.f)
		c.replays++
		if !ok {
			c.mismatch++
			fmt.Printf("ENGINE-MISMATCH %s model=%v detail=%v\n", f.f.ID, f.f.Model, detail)
			continue
		}
		c.AddViolation(Violation{Key: f.f.ID, What: fmt.Sprintf("%s (chain depth %d, variant %s, inputs %s): %v", f.f.Msg, f.p.depth, f.p.variant, modelString(f.f.Model), detail["native"]),
			Replay: map[string]interface{}{"kind": "prog", "src": f.p.src, "entry": "Entry", "params": []Param{{"sel", "int"}, {"d", "int"}}, "results": []string{"int"}, "model": f.f.Model, "mode": 0, "files": f.p.files, "assertion": f.f.ID}})
	}
	// package-level code of a package split over files: positions name the file the code is in
	{
		files := map[string]string{
			"main/a_setup.go": "package main\n\nvar ready = 1\n\nvar boot = mk(ready,\n\t0)\n\nfunc helper(x int) int {\n\treturn x + 1\n}\n",
			"main/b_math.go":  "package main\n\nfunc mk(a int, b int) int {\n\treturn helper(a) /\n\t\tb\n}\n",
			"main/c_last.go":  "package main\n\nfunc last() int {\n\treturn 3\n}\n\nvar tail = last()\n",
		}
		want := "main.mk@main/b_math.go:4 @main/a_setup.go:5"
		rep := c.Eng.ExploreWith(func(ex *gosx.Exec) {
			ex.InitPackage(c.Eng.Pkg)
			res, pan := ex.Call(ex.Func("verifLoadCall"), gosx.MkStringMap(files), "main", "", uint64(0), gosx.MkSlice())
			if pan != nil {
				ex.Assert(ex.TT().Bool(false), "C20/host-panic", ex.PanicText(pan), nil)
				return
			}
			o := c.decodeOutcome(ex, res)
			text := ""
			if o.hasEvalErr {
				text, _ = gosx.Lit(o.evalErr)
			}
			got := filePosSeq(text)
			if got != want {
				ex.Assert(ex.TT().Bool(false), "C20/pkglevel/positions", fmt.Sprintf("package-level fault reported as [%s], expected [%s]", got, want), nil)
			}
		}, "z3", 1)
		agg.Add(rep)
		for _, f := range rep.Failures {
			// native confirmation: the same Load, the same expectation
			var gr nativeProgResp
			req := map[string]interface{}{"Op": "prog", "Prog": map[string]interface{}{"Src": "package main\n", "Files": files, "Pkg": "main", "Entry": "", "NRes": 0, "Mode": 0}}
			_, err := c.Native.RunOnce(req, &gr, 60)
			c.replays++
			if err == nil && filePosSeq(gr.EvalErr) == want {
				c.mismatch++
				fmt.Printf("ENGINE-MISMATCH %s native=%q\n", f.ID, gr.EvalErr)
				continue
			}
			c.AddViolation(Violation{Key: f.ID, What: f.Msg + fmt.Sprintf("; native error text %q", truncate(gr.EvalErr, 200)),
				Replay: map[string]interface{}{"kind": "prog", "src": "package main\n", "entry": "", "params": []Param{}, "results": []string{}, "model": f.Model, "mode": 0, "files": files, "assertion": f.ID}})
		}
		c.Assumption("package-level positions: a three-file package whose initialiser in one file calls, over two lines, a function in another file that divides by zero over two lines; the Load error must name function, file and line of the fault and file and line of the initialiser")
	}
	agg.Into(c, "")
	// packed-position lemma (shape L): symbolic line and column through the real newPos / pos.info
	lagg := NewAgg()
	lres := c.runLemmaHarnesses([]string{"verifH_C20_pos"}, "z3", lagg)
	c.confirmLemmaFailures(lres, func(id string) string {
		return "packed position obligation " + strings.TrimPrefix(id, "C20/L/pos/") + " fails"
	})
	lagg.Into(c, "pos_lemma_")
	c.Assumption("position lemma: line and column are arbitrary positive int32 values; file/function names from a fixed list; line and column must read back exactly below 65535, names always, and info must not fail for any value")
	c.Cov("paths_compared", st.compared)
	c.Cov("rule", fmt.Sprintf("call chains of depth %v through functions and methods, in eleven variants (method call continued after the dot; preceded by completed calls to empty functions; the chain in a package imported under a path that differs from its name, loaded with Load; plain, preceded by a loop, by a switch, by a function literal, by a multi-line raw string and block comment; call as statement; call spread over two lines in two ways) with seven fault kinds (index, divide by zero, panic, nil struct access, nil func call, nil map write, slice bounds) planted at generator-known lines in every level; symbolic selectors decide which fault fires at which depth, so all (depth, fault) pairs of a chain are covered by one exploration; the real error text is checked in three pipelines (public Eval, in-package optimizer on, optimizer off): first line = function and line of the fault, then one line per active call innermost first with the line of the call, and on == off", depths))
	return c.Finish(false)
}

func (c *Ctx) replayC20(p *chainProg, f gosx.Failure) (bool, map[string]interface{}) {
	args := []map[string]interface{}{{"T": "int32", "V": uint64(int64(int32(f.Model["sel"])))}, {"T": "int32", "V": uint64(int64(int32(f.Model["d"])))}}
	texts := map[int]string{}
	modes := []int{0, 1, 2}
	if p.files != nil {
		modes = []int{0}
	}
	for _, mode := range modes {
		var gr nativeProgResp
		req := map[string]interface{}{"Op": "prog", "Prog": map[string]interface{}{"Src": p.src, "Entry": "main.Entry", "NRes": 1, "Args": args, "Mode": mode}}
		if p.files != nil {
			req = map[string]interface{}{"Op": "prog", "Prog": map[string]interface{}{"Src": "package main\n", "Files": p.files, "Pkg": "main", "Entry": "main.Entry", "NRes": 1, "Args": args, "Mode": 0}}
		}
		if _, err := c.Native.RunOnce(req, &gr, 60); err != nil {
			return strings.Contains(f.ID, "host-panic"), map[string]interface{}{"native": "host crash"}
		}
		texts[mode] = gr.CallErr
	}
	dv, sv := int(int32(f.Model["d"])), int(int32(f.Model["sel"]))
	bad := ""
	for _, mode := range modes {
		lines := strings.Split(texts[mode], "\n")
		m := btLineRE.FindStringSubmatch(lines[0])
		if m == nil || m[1] != p.fname[dv] || m[3] != fmt.Sprint(p.faultLine[dv][sv]) {
			bad = fmt.Sprintf("mode %d first line %q (expected %s line %d)", mode, truncate(lines[0], 120), p.fname[dv], p.faultLine[dv][sv])
			break
		}
		var want, got []string
		for k := dv - 1; k >= 0; k-- {
			want = append(want, fmt.Sprintf("%s:%d", p.fname[k], p.callLine[k]))
		}
		want = append(want, fmt.Sprintf("main.Entry:%d", p.callLine[p.depth]))
		for _, l := range lines[1:] {
			if bm := btLineRE.FindStringSubmatch(l); bm != nil {
				got = append(got, bm[1]+":"+bm[3])
			}
		}
		if strings.Join(got, " ") != strings.Join(want, " ") {
			bad = fmt.Sprintf("mode %d backtrace %v, expected %v", mode, got, want)
			break
		}
	}
	if bad == "" && len(modes) == 3 && posSeq(texts[1]) != posSeq(texts[2]) {
		bad = fmt.Sprintf("optimizer on: %q; off: %q", truncate(texts[1], 200), truncate(texts[2], 200))
	}
	return bad != "", map[string]interface{}{"native": bad}
}

// filePosSeq extracts the sequence of function@file:line entries of an error text.
func filePosSeq(text string) string {
	var out []string
	for _, l := range strings.Split(strings.TrimPrefix(text, "error in run: "), "\n") {
		if m := btLineRE.FindStringSubmatch(l); m != nil {
			out = append(out, m[1]+"@"+m[2]+":"+m[3])
		} else if m := bareLineRE.FindStringSubmatch(l); m != nil {
			out = append(out, "@"+m[1]+":"+m[2])
		}
	}
	return strings.Join(out, " ")
}

var bareLineRE = regexp.MustCompile(`(?:^|: |\t)([A-Za-z0-9_./]+\.go):(\d+):\d+`)

// posSeq extracts the sequence of (function, line) pairs of an error text.
func posSeq(text string) string {
	var out []string
	for _, l := range strings.Split(text, "\n") {
		if m := btLineRE.FindStringSubmatch(l); m != nil {
			out = append(out, m[1]+":"+m[3])
		}
	}
	return strings.Join(out, " ")
}
