package main

import (
	"fmt"
	"strings"
)

func init() { checks["C19"] = checkC19 }

// genC19 generates shape-L harnesses for the embedding API: constructor/accessor round trips for all values, the six
// NewFunc adapter forms × arities × result counts called from scripts with other operands on the stack, Call/Func
// with every requested result count, and error propagation out of native callbacks and nested calls.
func genC19() (string, []string) {
	var sb strings.Builder
	var names []string
	sb.WriteString("//go:build verif\n\npackage goatlang\n\nimport \"errors\"\n\nvar _ = errors.New\n\n")
	add := func(name, body string) {
		fn := "verifH_C19_" + name
		names = append(names, fn)
		fmt.Fprintf(&sb, "func %s() {\n%s}\n\nfunc init() { verifHarnesses[%q] = %s }\n\n", fn, body, fn, fn)
	}
	// ---- round trips
	add("rt_int32", `	x := verifInt32("x")
	v := Int32(x)
	verifAssert(v.Int32() == x, "C19/rt/int32")
	verifAssert(v.Int() == int(x), "C19/rt/int32-as-int")
	verifAssert(v.Float64() == float64(x), "C19/rt/int32-as-float64")
	verifAssert(v.Type() == TypeInt32, "C19/rt/int32-type")
`)
	add("rt_uint32", `	x := verifUint32("x")
	v := Uint32(x)
	verifAssert(v.Uint32() == x, "C19/rt/uint32")
	verifAssert(v.Uint() == uint(x), "C19/rt/uint32-as-uint")
	verifAssert(v.Type() == TypeUint32, "C19/rt/uint32-type")
`)
	add("rt_uint8", `	x := verifUint8("x")
	verifAssert(Uint8(x).Uint8() == x && Byte(x).Byte() == x && Uint8(x).Byte() == x, "C19/rt/uint8")
	verifAssert(Uint8(x).Type() == TypeUint8 && Byte(x).Type() == TypeUint8, "C19/rt/uint8-type")
`)
	add("rt_int8", `	x := verifInt8("x")
	verifAssert(Int8(x).Int8() == x, "C19/rt/int8")
	verifAssert(Int8(x).Int() == int(x), "C19/rt/int8-as-int")
	verifAssert(Int8(x).Type() == TypeInt8, "C19/rt/int8-type")
`)
	add("rt_float64", `	x := verifFloat64("x")
	y := Float64(x).Float64()
	verifAssert(y == x || (y != y && x != x), "C19/rt/float64")
	verifAssert(Float64(x).Type() == TypeFloat64, "C19/rt/float64-type")
`)
	add("rt_bool", `	x := verifBool("x")
	verifAssert(Bool(x).Bool() == x, "C19/rt/bool")
	verifAssert(Bool(x).Type() == TypeBool, "C19/rt/bool-type")
`)
	add("rt_int", `	x := verifInt("x")
	verifAssume(x >= -2147483648)
	verifAssume(x <= 2147483647)
	verifAssert(Int(x).Int() == x, "C19/rt/int")
	verifAssert(Int(x).Int32() == int32(x), "C19/rt/int-as-int32")
`)
	add("rt_uint", `	x := verifUint("x")
	verifAssume(x <= 4294967295)
	verifAssert(Uint(x).Uint() == x, "C19/rt/uint")
	verifAssert(Uint(x).Uint32() == uint32(x), "C19/rt/uint-as-uint32")
`)
	add("rt_string", `	for _, s := range []string{"", "a", "héllo\x00\xff", "line\nbreak"} {
		verifAssert(String(s).String() == s, "C19/rt/string")
		verifAssert(String(s).Type() == TypeString, "C19/rt/string-type")
	}
	verifAssert(Nil().IsNil() && Nil().Type() == TypeNil, "C19/rt/nil")
`)
	// ---- NewFunc forms
	argList := func(n int) (decl, use, call string) {
		var d, u []string
		for i := 0; i < n; i++ {
			d = append(d, fmt.Sprintf("a%d", i))
			u = append(u, fmt.Sprintf("Int32(a[%d])", i))
		}
		if n > 0 {
			decl = strings.Join(d, ", ") + " int"
		}
		return decl, strings.Join(u, ", "), strings.Join(d, ", ")
	}
	prelude := func(n, m int) string {
		return fmt.Sprintf(`	var a [%d]int32
	for i := range a {
		a[i] = verifInt32(verifName("a", i))
	}
	var r [%d]int32
	for i := range r {
		r[i] = verifInt32(verifName("r", i))
	}
	mark := verifInt32("mark")
	var got []Value
	calls := 0
	vm := New(WithStdout(&verifRecorder{}))
	_, _, _, _, _ = a, r, mark, got, calls
`, n+1, m+1)
	}
	checkArgs := func(n int, id string) string {
		return fmt.Sprintf(`	verifAssert(calls == 1, "%[2]s/called-once")
	verifAssert(len(got) == %[1]d, "%[2]s/argc")
	for i := 0; i < %[1]d && i < len(got); i++ {
		verifAssert(got[i].t == TypeInt32 && got[i].num == float64(a[i]), "%[2]s/arg")
	}
`, n, id)
	}
	// script: g returns mark, then the native results, then mark again (so neighbours on the stack are observable)
	script := func(n, m int, nested bool) (src string, nres int) {
		decl, _, call := argList(n)
		params := "mark int"
		if decl != "" {
			params += ", " + decl
		}
		switch {
		case m == 0:
			return fmt.Sprintf("func g(%s) (int, int) { z := mark + 1; nat(%s); return z, mark }", params, call), 2
		case m == 1 && nested:
			return fmt.Sprintf("func g(%s) (int, int, int) { z := mark + 1; return z, 1000 + nat(%s) * 2, mark }", params, call), 3
		default:
			var xs, ts []string
			for j := 0; j < m; j++ {
				xs = append(xs, fmt.Sprintf("x%d", j))
				ts = append(ts, "int")
			}
			return fmt.Sprintf("func g(%s) (int, %s, int) { z := mark + 1; %s := nat(%s); return z, %s, mark }", params, strings.Join(ts, ", "), strings.Join(xs, ", "), call, strings.Join(xs, ", ")), m + 2
		}
	}
	callG := func(n, nres int) string {
		_, use, _ := argList(n)
		args := "Int32(mark)"
		if use != "" {
			args += ", " + use
		}
		return fmt.Sprintf(`	rets, err := vm.Call("main.g", %d, %s)
`, nres, args)
	}
	for n := 0; n <= 6; n++ {
		// form 3: func(vm, args) — N->0
		{
			id := fmt.Sprintf("C19/newfunc/N%d->0", n)
			src, nres := script(n, 0, false)
			add(fmt.Sprintf("nf_args_%d_0", n), prelude(n, 0)+fmt.Sprintf(`	vm.Set("main.nat", NewFunc(%d, 0, func(v *VM, args []Value) { calls++; got = append(got, args...) }))
	if _, err := verifEval(vm, verifMkFS(nil), %q, 0); err != nil {
		verifAssert(false, "%s/eval")
		return
	}
`, n, src, id)+callG(n, nres)+fmt.Sprintf(`	verifAssert(err == nil && len(rets) == 2, "%[1]s/outcome")
	if err == nil && len(rets) == 2 {
		verifAssert(rets[0].num == float64(mark+1) && rets[1].num == float64(mark), "%[1]s/neighbours")
	}
`, id)+checkArgs(n, id))
		}
		// form 4: func(vm, args) Value — N->1, nested inside an expression
		{
			id := fmt.Sprintf("C19/newfunc/N%d->1", n)
			src, nres := script(n, 1, true)
			add(fmt.Sprintf("nf_args_%d_1", n), prelude(n, 1)+fmt.Sprintf(`	vm.Set("main.nat", NewFunc(%d, 1, func(v *VM, args []Value) Value { calls++; got = append(got, args...); return Int32(r[0]) }))
	if _, err := verifEval(vm, verifMkFS(nil), %q, 0); err != nil {
		verifAssert(false, "%s/eval")
		return
	}
`, n, src, id)+callG(n, nres)+fmt.Sprintf(`	verifAssert(err == nil && len(rets) == 3, "%[1]s/outcome")
	if err == nil && len(rets) == 3 {
		verifAssert(rets[0].num == float64(mark+1) && rets[2].num == float64(mark), "%[1]s/neighbours")
		verifAssert(rets[1].num == float64(1000+r[0]*2), "%[1]s/result")
	}
`, id)+checkArgs(n, id))
		}
		// form 5: func(vm, args) []Value — N->M
		for m := 0; m <= 4; m++ {
			id := fmt.Sprintf("C19/newfunc/N%d->M%d", n, m)
			src, nres := script(n, m, false)
			var rl []string
			for j := 0; j < m; j++ {
				rl = append(rl, fmt.Sprintf("Int32(r[%d])", j))
			}
			var chk strings.Builder
			for j := 0; j < m; j++ {
				fmt.Fprintf(&chk, "\t\tverifAssert(rets[%d].num == float64(r[%d]) && rets[%d].t == TypeInt32, \"%s/result\")\n", j+1, j, j+1, id)
			}
			add(fmt.Sprintf("nf_args_%d_m%d", n, m), prelude(n, m)+fmt.Sprintf(`	vm.Set("main.nat", NewFunc(%d, %d, func(v *VM, args []Value) []Value { calls++; got = append(got, args...); return []Value{%s} }))
	if _, err := verifEval(vm, verifMkFS(nil), %q, 0); err != nil {
		verifAssert(false, "%s/eval")
		return
	}
`, n, m, strings.Join(rl, ", "), src, id)+callG(n, nres)+fmt.Sprintf(`	verifAssert(err == nil && len(rets) == %[2]d, "%[1]s/outcome")
	if err == nil && len(rets) == %[2]d {
		verifAssert(rets[0].num == float64(mark+1) && rets[%[3]d].num == float64(mark), "%[1]s/neighbours")
%[4]s	}
`, id, nres, nres-1, chk.String())+checkArgs(n, id))
		}
	}
	// natives that hand back (views of) the argument window they were given
	for n := 1; n <= 4; n++ {
		for _, style := range []string{"args", "reslice", "append"} {
			m := n
			ret := "args"
			switch style {
			case "reslice":
				m = n - 1
				ret = "args[1:]"
			case "append":
				m = n + 1
				ret = "append(args, Int32(r[0]))"
			}
			if m == 0 {
				continue
			}
			id := fmt.Sprintf("C19/newfunc/N%d->%s", n, style)
			src, nres := script(n, m, false)
			var chk strings.Builder
			for j := 0; j < m; j++ {
				want := fmt.Sprintf("a[%d]", j)
				if style == "reslice" {
					want = fmt.Sprintf("a[%d]", j+1)
				}
				if style == "append" && j == n {
					want = "r[0]"
				}
				fmt.Fprintf(&chk, "\t\tverifAssert(rets[%d].t == TypeInt32 && rets[%d].num == float64(%s), \"%s/result\")\n", j+1, j+1, want, id)
			}
			add(fmt.Sprintf("nf_alias_%d_%s", n, style), prelude(n, 1)+fmt.Sprintf(`	vm.Set("main.nat", NewFunc(%d, %d, func(v *VM, args []Value) []Value { calls++; got = append(got, args...); return %s }))
	if _, err := verifEval(vm, verifMkFS(nil), %q, 0); err != nil {
		verifAssert(false, "%s/eval")
		return
	}
`, n, m, ret, src, id)+callG(n, nres)+fmt.Sprintf(`	verifAssert(err == nil && len(rets) == %[2]d, "%[1]s/outcome")
	if err == nil && len(rets) == %[2]d {
		verifAssert(rets[0].num == float64(mark+1) && rets[%[3]d].num == float64(mark), "%[1]s/neighbours")
%[4]s	}
`, id, nres, nres-1, chk.String())+checkArgs(n, id))
		}
	}
	// forms 1 and 2: raw stack natives
	add("nf_raw_0_0", prelude(0, 0)+`	vm.Set("main.nat", NewFunc(0, 0, func(v *VM) { calls++ }))
	if _, err := verifEval(vm, verifMkFS(nil), "func g(mark int) (int, int) { z := mark + 1; nat(); return z, mark }", 0); err != nil {
		verifAssert(false, "C19/newfunc/raw0->0/eval")
		return
	}
	rets, err := vm.Call("main.g", 2, Int32(mark))
	verifAssert(err == nil && len(rets) == 2 && calls == 1, "C19/newfunc/raw0->0/outcome")
	if err == nil && len(rets) == 2 {
		verifAssert(rets[0].num == float64(mark+1) && rets[1].num == float64(mark), "C19/newfunc/raw0->0/neighbours")
	}
`)
	add("nf_raw_0_1", prelude(0, 1)+`	vm.Set("main.nat", NewFunc(0, 1, func(v *VM) Value { calls++; return Int32(r[0]) }))
	if _, err := verifEval(vm, verifMkFS(nil), "func g(mark int) (int, int, int) { z := mark + 1; return z, 1000 + nat() * 2, mark }", 0); err != nil {
		verifAssert(false, "C19/newfunc/raw0->1/eval")
		return
	}
	rets, err := vm.Call("main.g", 3, Int32(mark))
	verifAssert(err == nil && len(rets) == 3 && calls == 1, "C19/newfunc/raw0->1/outcome")
	if err == nil && len(rets) == 3 {
		verifAssert(rets[0].num == float64(mark+1) && rets[2].num == float64(mark) && rets[1].num == float64(1000+r[0]*2), "C19/newfunc/raw0->1/values")
	}
`)
	// form 6: variadic natives: N fixed + k variadic -> M
	for n := 0; n <= 3; n++ {
		for k := 0; k <= 3; k++ {
			for _, m := range []int{0, 1, 2} {
				id := fmt.Sprintf("C19/newfunc/N%d+v%d->M%d", n, k, m)
				src, nres := script(n+k, m, false)
				var rl []string
				for j := 0; j < m; j++ {
					rl = append(rl, fmt.Sprintf("Int32(r[%d])", j))
				}
				var chk strings.Builder
				for j := 0; j < m; j++ {
					fmt.Fprintf(&chk, "\t\tverifAssert(rets[%d].num == float64(r[%d]), \"%s/result\")\n", j+1, j, id)
				}
				add(fmt.Sprintf("nf_var_%d_%d_m%d", n, k, m), prelude(n+k, m)+fmt.Sprintf(`	nfixed := -1
	vm.Set("main.nat", NewFunc(%d, %d, func(v *VM, args []Value, vargs ...Value) []Value {
		calls++
		nfixed = len(args)
		got = append(got, args...)
		got = append(got, vargs...)
		return []Value{%s}
	}))
	if _, err := verifEval(vm, verifMkFS(nil), %q, 0); err != nil {
		verifAssert(false, "%s/eval")
		return
	}
`, n+1, m, strings.Join(rl, ", "), src, id)+callG(n+k, nres)+fmt.Sprintf(`	verifAssert(err == nil && len(rets) == %[2]d, "%[1]s/outcome")
	verifAssert(nfixed == %[5]d, "%[1]s/fixed-args")
	if err == nil && len(rets) == %[2]d {
		verifAssert(rets[0].num == float64(mark+1) && rets[%[3]d].num == float64(mark), "%[1]s/neighbours")
%[4]s	}
`, id, nres, nres-1, chk.String(), n)+checkArgs(n+k, id))
			}
		}
	}
	// ---- Call / Func with every requested result count
	for x := 0; x <= 4; x++ {
		id := fmt.Sprintf("C19/call/xrets%d", x)
		var chk strings.Builder
		for j := 0; j < x; j++ {
			fmt.Fprintf(&chk, "\t\tverifAssert(rets[%d].num == float64(a[%d]) && rets2[%d].num == float64(a[%d]), \"%s/values\")\n", j, j, j, j, id)
		}
		add(fmt.Sprintf("call_xrets_%d", x), prelude(3, 0)+fmt.Sprintf(`	if _, err := verifEval(vm, verifMkFS(nil), "func g(a0, a1, a2, a3 int) (int, int, int, int) { return a0, a1, a2, a3 }", 0); err != nil {
		verifAssert(false, "%[1]s/eval")
		return
	}
	rets, err := vm.Call("main.g", %[2]d, Int32(a[0]), Int32(a[1]), Int32(a[2]), Int32(a[3]))
	rets2, err2 := vm.Func(vm.Get("main.g"), %[2]d, Int32(a[0]), Int32(a[1]), Int32(a[2]), Int32(a[3]))
	verifAssert(err == nil && err2 == nil && len(rets) == %[2]d && len(rets2) == %[2]d, "%[1]s/count")
	if err == nil && err2 == nil && len(rets) == %[2]d && len(rets2) == %[2]d {
%[3]s	}
`, id, x, chk.String()))
	}
	add("call_too_many_results", prelude(0, 0)+`	if _, err := verifEval(vm, verifMkFS(nil), "func g(a0 int) int { return a0 }", 0); err != nil {
		verifAssert(false, "C19/call/too-many/eval")
		return
	}
	_, err := vm.Call("main.g", 2, Int32(a[0]))
	verifAssert(err != nil, "C19/call/too-many-results-is-error")
	_, err = vm.Call("main.g", 1)
	verifAssert(err != nil, "C19/call/too-few-args-is-error")
	_, err = vm.Call("main.g", 1, Int32(a[0]), Int32(a[0]))
	verifAssert(err != nil, "C19/call/too-many-args-is-error")
	rets, err := vm.Call("main.g", 1, Int32(a[0]))
	verifAssert(err == nil && len(rets) == 1 && rets[0].num == float64(a[0]), "C19/call/ok-after-errors")
`)
	// ---- errors surface
	add("native_panic_surfaces", prelude(0, 0)+`	vm.Set("main.nat", NewFunc(1, 1, func(v *VM, args []Value) Value { panic("boom") }))
	if _, err := verifEval(vm, verifMkFS(nil), "func g(a0 int) int { return 1 + nat(a0) }", 0); err != nil {
		verifAssert(false, "C19/errors/native-panic/eval")
		return
	}
	rets, err := vm.Call("main.g", 1, Int32(a[0]))
	verifAssert(err != nil && len(rets) == 0, "C19/errors/native-panic-is-error")
`)
	add("nested_call_error_surfaces", prelude(0, 0)+`	vm.Set("main.nat", NewFunc(1, 1, func(v *VM, args []Value) Value {
		rets, err := vm.Call("main.bad", 1, args[0])
		if err != nil {
			panic(err)
		}
		return rets[0]
	}))
	if _, err := verifEval(vm, verifMkFS(nil), "func bad(x int) int { var s []int; return s[x] }\nfunc g(a0 int) int { return 1 + nat(a0) }", 0); err != nil {
		verifAssert(false, "C19/errors/nested/eval")
		return
	}
	_, err := vm.Call("main.g", 1, Int32(a[0]))
	verifAssert(err != nil, "C19/errors/nested-failure-is-error")
	// the VM stays usable afterwards
	if _, err := verifEval(vm, verifMkFS(nil), "func ok(x int) int { return x + 1 }", 0); err != nil {
		verifAssert(false, "C19/errors/nested/eval2")
		return
	}
	rets, err := vm.Call("main.ok", 1, Int32(a[0]))
	verifAssert(err == nil && len(rets) == 1 && rets[0].num == float64(a[0]+1), "C19/errors/vm-usable-after-error")
`)
	add("nested_call_ok", prelude(1, 0)+`	vm.Set("main.nat", NewFunc(2, 1, func(v *VM, args []Value) Value {
		rets, err := vm.Call("main.add", 1, args[0], args[1])
		if err != nil {
			panic(err)
		}
		return rets[0]
	}))
	if _, err := verifEval(vm, verifMkFS(nil), "func add(x, y int) int { return x + y }\nfunc g(mark, a0, a1 int) (int, int, int) { z := mark + 1; return z, 7 * nat(a0, a1), mark }", 0); err != nil {
		verifAssert(false, "C19/nested/eval")
		return
	}
	rets, err := vm.Call("main.g", 3, Int32(mark), Int32(a[0]), Int32(a[1]))
	verifAssert(err == nil && len(rets) == 3, "C19/nested/outcome")
	if err == nil && len(rets) == 3 {
		verifAssert(rets[0].num == float64(mark+1) && rets[1].num == float64(7*(a[0]+a[1])) && rets[2].num == float64(mark), "C19/nested/values")
	}
`)
	// re-entrancy: a native calls back into the script, the script re-enters the SAME native (other arguments) before
	// the outer invocation has read its own args / vargs; both invocations must have seen exactly what was passed
	for _, form := range []string{"variadic", "fixed"} {
		sig, reg, inner, outer, nOuter, nInner := "", "", "", "", 0, 0
		if form == "variadic" {
			sig = "func(v *VM, args []Value, vargs ...Value) []Value"
			reg = "NewFunc(2, 1, "
			inner, outer = "nat(x+1, 100, 200)", "nat(a0, a1, a2, a3)"
			nOuter, nInner = 4, 3
		} else {
			sig = "func(v *VM, args []Value) []Value"
			reg = "NewFunc(3, 1, "
			inner, outer = "nat(x+1, 100, 200)", "nat(a0, a1, a2)"
			nOuter, nInner = 3, 3
		}
		vuse := "\t\tvar vargs []Value\n"
		if form == "variadic" {
			vuse = ""
		}
		for _, via := range []string{"Call", "Func"} {
			callback := `v.Call("main.leaf", 1, args[0])`
			if via == "Func" {
				callback = `v.Func(v.Get("main.leaf"), 1, args[0])`
			}
			id := "C19/reentrant/" + form + "/" + via
			add("reentrant_"+form+"_"+via, prelude(3, 0)+fmt.Sprintf(`	depth := 0
	var outerSaw, innerSaw []Value
	vm.Set("main.nat", %[1]s%[2]s {
%[3]s		depth++
		if depth == 1 {
			rets, err := %[4]s
			if err != nil || len(rets) != 1 {
				panic("nested call failed")
			}
			outerSaw = append(outerSaw, args...)
			outerSaw = append(outerSaw, vargs...)
			depth--
			return []Value{rets[0]}
		}
		innerSaw = append(innerSaw, args...)
		innerSaw = append(innerSaw, vargs...)
		depth--
		return []Value{Int32(7)}
	}))
	if _, err := verifEval(vm, verifMkFS(nil), "func leaf(x int) int { return %[5]s + 1 }\nfunc g(a0, a1, a2, a3 int) (int, int) { return %[6]s, a3 }", 0); err != nil {
		verifAssert(false, "%[7]s/eval")
		return
	}
	rets, err := vm.Call("main.g", 2, Int32(a[0]), Int32(a[1]), Int32(a[2]), Int32(a[3]))
	verifAssert(err == nil && len(rets) == 2, "%[7]s/outcome")
	if err == nil && len(rets) == 2 {
		verifAssert(rets[0].num == 8 && rets[1].num == float64(a[3]), "%[7]s/results")
	}
	verifAssert(len(outerSaw) == %[8]d && len(innerSaw) == %[9]d, "%[7]s/argument-counts")
	for i := 0; i < %[8]d && i < len(outerSaw); i++ {
		verifAssert(outerSaw[i].num == float64(a[i]), "%[7]s/outer-invocation-sees-its-own-arguments")
	}
	if len(innerSaw) == 3 {
		verifAssert(innerSaw[0].num == float64(a[0]+1) && innerSaw[1].num == 100 && innerSaw[2].num == 200, "%[7]s/inner-invocation-sees-its-own-arguments")
	}
`, reg, sig, vuse, callback, inner, outer, id, nOuter, nInner))
		}
	}
	// a callback that creates many new names (the globals table grows while a frame is running) and publishes a value:
	// the running script sees what the host set
	add("globals_grow_during_a_callback", prelude(1, 0)+`	vm.Set("main.grow", NewFunc(1, 1, func(v *VM, args []Value) Value {
		for i := 0; i < 600; i++ {
			v.Set(verifName("host.fresh", i), Int32(int32(i)))
		}
		v.Set("main.level", Int32(7))
		return args[0]
	}))
	if _, err := verifEval(vm, verifMkFS(nil), "var x = 1\nvar level = 0\nfunc g(a int) int {\n\tx = a\n\tk := grow(x)\n\tx = x + 1\n\treturn k*1000 + x*10 + level\n}", 0); err != nil {
		verifAssert(false, "C19/grow/eval")
		return
	}
	verifAssume(verifAnd(a[0] >= 0, a[0] < 1000))
	rets, err := vm.Call("main.g", 1, Int32(a[0]))
	verifAssert(err == nil && len(rets) == 1, "C19/grow/outcome")
	if err == nil && len(rets) == 1 {
		verifAssert(rets[0].num == float64(a[0]*1000+(a[0]+1)*10+7), "C19/grow/script-sees-globals-set-during-the-callback")
	}
	verifAssert(vm.Get("main.level").num == 7 && vm.Get("main.x").num == float64(a[0]+1), "C19/grow/host-sees-the-same")
`)
	// Set binds a NAME: rebinding one name does not change what other names (or captured Values) of the old function do
	add("set_rebinds_one_name_only", prelude(2, 0)+`	addF := NewFunc(2, 1, func(v *VM, args []Value) Value { return Int32(int32(args[0].Int()) + int32(args[1].Int())) })
	mulF := NewFunc(2, 1, func(v *VM, args []Value) Value { return Int32(int32(args[0].Int()) * int32(args[1].Int())) })
	vm.Set("main.add", addF)
	vm.Set("main.plus", addF) // the same function Value under a second name
	if _, err := verifEval(vm, verifMkFS(nil), "func tickA() int { return 1 }\nfunc tickB() int { return 2 }\nfunc useAdd(x, y int) int { return add(x, y) }\nfunc usePlus(x, y int) int { return plus(x, y) }", 0); err != nil {
		verifAssert(false, "C19/set/eval")
		return
	}
	hook := vm.Get("main.tickA")
	vm.Set("main.hook", hook)
	vm.Set("main.plus", mulF)          // rebind the second name
	vm.Set("main.hook", vm.Get("main.tickB")) // and the hook
	r1, e1 := vm.Call("main.useAdd", 1, Int32(a[0]), Int32(a[1]))
	r2, e2 := vm.Call("main.usePlus", 1, Int32(a[0]), Int32(a[1]))
	r3, e3 := vm.Call("main.tickA", 1)
	r4, e4 := vm.Call("main.hook", 1)
	r5, e5 := vm.Func(hook, 1)
	verifAssert(e1 == nil && e2 == nil && e3 == nil && e4 == nil && e5 == nil, "C19/set/outcome")
	if e1 == nil && e2 == nil && e3 == nil && e4 == nil && e5 == nil {
		verifAssert(len(r1) == 1 && r1[0].num == float64(a[0]+a[1]), "C19/set/other-name-keeps-the-old-function")
		verifAssert(len(r2) == 1 && r2[0].num == float64(a[0]*a[1]), "C19/set/rebound-name-runs-the-new-function")
		verifAssert(len(r3) == 1 && r3[0].num == 1 && len(r4) == 1 && r4[0].num == 2 && len(r5) == 1 && r5[0].num == 1, "C19/set/script-function-unchanged-by-rebinding-a-hook")
	}
	verifAssert(vm.Get("main.plus").value == mulF.value && vm.Get("main.add").value == addF.value, "C19/set/get-returns-what-was-set")
`)
	// host-built struct instances: NewStruct / SetAttr / GetAttr round trips, independence of instances built from one
	// base, and of script-built instances from host-built ones
	add("newstruct_instances_independent", prelude(3, 0)+`	if _, err := verifEval(vm, verifMkFS(nil), "type T struct {\n\tX int\n\tS string\n\tB byte\n}\nfunc (t *T) Get() int { return t.X + 1 }\nfunc fresh() int { t := &T{}; return t.X*10 + len(t.S) }\nfunc rd(t *T) int { return t.X }", 0); err != nil {
		verifAssert(false, "C19/newstruct/eval")
		return
	}
	base := vm.Get("main.T")
	s1 := NewStruct(base, []Value{String("X"), Int32(a[0]), String("S"), String("one")})
	s2 := NewStruct(base, []Value{String("X"), Int32(a[1]), String("S"), String("two!")})
	s3 := NewStruct(base, nil)
	verifAssert(s1.GetAttr("X").num == float64(a[0]) && s1.GetAttr("S").String() == "one", "C19/newstruct/first-instance-keeps-its-fields")
	verifAssert(s2.GetAttr("X").num == float64(a[1]) && s2.GetAttr("S").String() == "two!", "C19/newstruct/second-instance")
	verifAssert(s3.GetAttr("X").num == 0 && s3.GetAttr("S").String() == "" && s3.GetAttr("B").num == 0, "C19/newstruct/unset-fields-are-zero")
	s2.SetAttr("X", Int32(a[2]))
	verifAssert(s1.GetAttr("X").num == float64(a[0]) && s3.GetAttr("X").num == 0, "C19/newstruct/setattr-touches-one-instance")
	rets, err := vm.Call("main.fresh", 1)
	verifAssert(err == nil && len(rets) == 1 && rets[0].num == 0, "C19/newstruct/script-literal-still-zero-valued")
	rets, err = vm.Call("main.rd", 1, s1)
	verifAssert(err == nil && len(rets) == 1 && rets[0].num == float64(a[0]), "C19/newstruct/script-reads-host-built-instance")
	rets, err = vm.Func(s2.GetAttr("Get"), 1)
	verifAssert(err == nil && len(rets) == 1 && rets[0].num == float64(a[2]+1), "C19/newstruct/method-of-host-built-instance")
`)
	// results and argument windows are not shared between host calls: a result slice still held by the host keeps its
	// values across the next Call/Func, and a native invoked DIRECTLY by Call keeps its args across a nested Call
	add("held_results_survive_next_call", prelude(3, 0)+`	if _, err := verifEval(vm, verifMkFS(nil), "func add(x, y int) int { return x + y }\nfunc pair(x, y int) (int, int) { return y, x }", 0); err != nil {
		verifAssert(false, "C19/held/eval")
		return
	}
	r1, err1 := vm.Call("main.add", 1, Int32(a[0]), Int32(a[1]))
	r2, err2 := vm.Call("main.pair", 2, Int32(a[2]), Int32(a[3]))
	r3, err3 := vm.Func(vm.Get("main.add"), 1, Int32(a[3]), Int32(a[0]))
	verifAssert(err1 == nil && err2 == nil && err3 == nil && len(r1) == 1 && len(r2) == 2 && len(r3) == 1, "C19/held/outcome")
	if err1 == nil && err2 == nil && err3 == nil && len(r1) == 1 && len(r2) == 2 && len(r3) == 1 {
		verifAssert(r1[0].num == float64(a[0]+a[1]), "C19/held/first-result-unchanged-by-later-calls")
		verifAssert(r2[0].num == float64(a[3]) && r2[1].num == float64(a[2]), "C19/held/second-result-unchanged-by-later-calls")
		verifAssert(r3[0].num == float64(a[3]+a[0]), "C19/held/third-result")
	}
`)
	add("native_called_by_host_keeps_args_across_nested_call", prelude(3, 0)+`	var before, after []Value
	vm.Set("main.nat", NewFunc(3, 1, func(v *VM, args []Value) []Value {
		before = append(before, args...)
		rets, err := v.Call("main.add", 1, Int32(200), Int32(200))
		if err != nil || len(rets) != 1 {
			panic("nested call failed")
		}
		after = append(after, args...)
		return []Value{rets[0]}
	}))
	if _, err := verifEval(vm, verifMkFS(nil), "func add(x, y int) int { return x + y }", 0); err != nil {
		verifAssert(false, "C19/host-native/eval")
		return
	}
	rets, err := vm.Call("main.nat", 1, Int32(a[0]), Int32(a[1]), Int32(a[2]))
	verifAssert(err == nil && len(rets) == 1 && rets[0].num == 400, "C19/host-native/outcome")
	verifAssert(len(before) == 3 && len(after) == 3, "C19/host-native/argc")
	for i := 0; i < 3 && i < len(before) && i < len(after); i++ {
		verifAssert(before[i].num == float64(a[i]) && after[i].num == float64(a[i]), "C19/host-native/args-unchanged-by-the-nested-call")
	}
	rets2, err := vm.Func(vm.Get("main.nat"), 1, Int32(a[2]), Int32(a[1]), Int32(a[0]))
	verifAssert(err == nil && len(rets2) == 1 && rets2[0].num == 400 && rets[0].num == 400, "C19/host-native/func-form")
`)
	return sb.String(), names
}

func checkC19(tier string, seed int64) int {
	src, names := genC19()
	c := newCtx("C19", tier, seed, "model_checking", map[string][]byte{"zz_verif_c19.go": []byte(src)})
	defer c.Close()
	agg := NewAgg()
	res := c.runLemmaHarnesses(names, "z3", agg)
	c.confirmLemmaFailures(res, func(id string) string { return "embedding-API obligation " + strings.TrimPrefix(id, "C19/") + " fails" })
	agg.Into(c, "lemmas_")
	c.Cov("lemma_harnesses", len(names))
	c.Assumption("native callbacks are harness closures recording their arguments; arguments and results are distinct symbolic int32 labels, so misdelivery is decided by the solver")
	c.Assumption("forms func(vm) and func(vm) Value are exercised at their documented arity 0; Int/Uint on their documented 32-bit domain")
	return c.Finish(false)
}

func init() {
	extraOverlays["C19"] = func() map[string][]byte {
		src, _ := genC19()
		return map[string][]byte{"zz_verif_c19.go": []byte(src)}
	}
}
