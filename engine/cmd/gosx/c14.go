package main

import (
	"fmt"
	"strings"

	"verif/engine/gosx"
)

func init() { checks["C14"] = checkC14 }

type printTpl struct {
	name   string
	params []Param
	body   string
	decls  string
}

func genC14(tier string) []*Prog {
	leaf := []Param{{"a", "int"}, {"b", "byte"}, {"c", "int8"}, {"u", "uint32"}, {"f", "float64"}, {"p", "bool"}}
	var tpls []printTpl
	add := func(name, body string) { tpls = append(tpls, printTpl{name: name, params: leaf, body: body}) }
	for _, v := range []string{"a", "b", "c", "u", "f", "p"} {
		add("println-"+v, fmt.Sprintf("\tfmt.Println(%s)\n", v))
		add("print-"+v, fmt.Sprintf("\tfmt.Print(%s)\n\tfmt.Print(\"\\n\")\n", v))
		add("sprint-"+v, fmt.Sprintf("\ts := fmt.Sprint(%s)\n\tfmt.Println(s + \"|\")\n", v))
		add("slice-"+v, fmt.Sprintf("\tfmt.Println([]%s{%s, %s})\n", typeOf(v), v, v))
		add("map-val-"+v, fmt.Sprintf("\tfmt.Println(map[string]%s{\"k\": %s})\n", typeOf(v), v))
		if v != "f" {
			add("map-key-"+v, fmt.Sprintf("\tfmt.Println(map[%s]string{%s: \"v\"})\n", typeOf(v), v))
		}
	}
	add("println-many", "\tfmt.Println(a, b, c, u, f, p, \"s\", \"\")\n")
	add("println-strings", "\tfmt.Println(\"x\", \"y\", a, \"z\")\n\tfmt.Println()\n\tfmt.Println(\"\")\n")
	add("empty-operands", "\ts := \"\"\n\tfmt.Println(\"\", a, \"\")\n\tfmt.Println(s, s, a)\n\tfmt.Println(a, s, s, p)\n\tfmt.Println(s)\n\tfmt.Println(s, s)\n\tprintln(\"\", p)\n\tprintln(s, s, 7)\n\tfmt.Print(s)\n\tfmt.Println(fmt.Sprint(s) + \"|\")\n")
	add("builtin-println", "\tprintln(a, p, \"s\", b)\n\tprintln()\n\tfmt.Print(\"\")\n")
	add("nest2-slices", "\tfmt.Println([][]int{{a}, {a, a}, {}})\n")
	add("nest2-slice-of-map", "\tfmt.Println([]map[string]int{{\"k\": a}, {}})\n")
	add("nest2-map-of-slice", "\tfmt.Println(map[string][]int{\"k\": {a, a}})\n")
	add("nest2-map-of-map", "\tfmt.Println(map[string]map[string]float64{\"o\": {\"i\": f}})\n")
	add("nest3-slices", "\tfmt.Println([][][]int{{{a}, {a, a}}, {{}}})\n")
	add("nest3-mixed", "\tfmt.Println([]map[string][]bool{{\"k\": {p, true}}})\n")
	add("nest4", "\tfmt.Println([][][][]int{{{{a}}}})\n")
	add("nest5", "\tfmt.Println([][][][][]byte{{{{{b}}}}})\n")
	add("empty-and-nil", "\tvar s []int\n\tvar m map[string]int\n\tfmt.Println(s, []int{}, m, map[string]int{}, len(s), len(m))\n")
	add("strings-in-containers", "\tfmt.Println([]string{\"a b\", \"\", \"c\"}, map[string]string{\"k\": \"v w\"})\n")
	add("bytes", "\tfmt.Println([]byte{b, 0, 255}, []byte(\"hi\"))\n")
	add("float-literals", "\tfmt.Println(1e21, 1e20, 1e-5, 0.000001, 123456789.0, 1.5, 100.0, 0.30000000000000004, 3.0)\n")
	add("float-special", "\tz := 0.0\n\tnz := -z\n\tfmt.Println(z/z, 1/z, -1/z, nz, 1/nz)\n")
	add("float-arith", "\tfmt.Println(f*2, f/3, f+0.5, -f)\n")
	add("int-bounds", "\tfmt.Println(-2147483648, 2147483647, uint32(4294967295), int8(-128), byte(255))\n")
	// values with a history: containers after deletes, re-inserts, appends, re-slices and element writes
	add("map-after-delete", "\tm := map[string]int{\"a\": a, \"b\": 2}\n\tdelete(m, \"a\")\n\tfmt.Println(m, len(m))\n\tn := map[int]string{1: \"x\", a: \"y\"}\n\tdelete(n, 1)\n\tdelete(n, 7)\n\tfmt.Println(len(n))\n\tq := map[string]bool{\"k\": p}\n\tdelete(q, \"k\")\n\tfmt.Println(q, len(q))\n\tq[\"z\"] = p\n\tfmt.Println(q)\n")
	add("map-delete-reinsert", "\tm := map[string]int{\"a\": 1}\n\tdelete(m, \"a\")\n\tm[\"a\"] = a\n\tfmt.Println(m)\n\tw := map[string][]int{\"k\": {a}, \"g\": {1}}\n\tdelete(w, \"g\")\n\tw[\"k\"] = append(w[\"k\"], 2)\n\tfmt.Println(w)\n\to := map[string]map[string]int{\"o\": {\"i\": a, \"j\": 2}}\n\tdelete(o[\"o\"], \"j\")\n\tfmt.Println(o)\n")
	add("slice-history", "\ts := []int{a, 2, 3, 4}\n\tt := s[1:3]\n\tt[0] = 9\n\tfmt.Println(s, t, s[:0], s[4:], len(t))\n\ts = append(s[:1], 7)\n\tfmt.Println(s, t)\n\tvar e []string\n\te = append(e, \"x y\")\n\tfmt.Println(e, len(e))\n")
	add("wraps", "\tfmt.Println(a+a, b+b, c+c, u+u, u-1)\n")
	var progs []*Prog
	for i, t := range tpls {
		name := fmt.Sprintf("f%d", i)
		var ps []string
		for _, p := range t.params {
			ps = append(ps, p.Name+" "+p.Type)
		}
		src := fmt.Sprintf("package main\n\nimport \"fmt\"\n\n%sfunc %s(%s) int {\n%s\treturn 0\n}\n", t.decls, name, strings.Join(ps, ", "), t.body)
		progs = append(progs, &Prog{ID: "print:" + t.name, Src: src, Entry: name, Params: t.params, Results: []string{"int"}, Family: "C14/" + t.name})
	}
	return progs
}

func typeOf(v string) string {
	return map[string]string{"a": "int", "b": "byte", "c": "int8", "u": "uint32", "f": "float64", "p": "bool"}[v]
}

func checkC14(tier string, seed int64) int {
	c := newCtx("C14", tier, seed, "translation_validation", nil)
	defer c.Close()
	progs := genC14(tier)
	agg, st := NewAgg(), &eqStats{}
	c.runEquiv(progs, "z3", agg, st)
	// struct rendering and termination on cyclic graphs: lemma harnesses
	names := []string{"verifC14Structs", "verifC14Cycles", "verifC14AnyCycles"}
	c.nonTerminationFails = true // running past the step / call-depth bound while rendering is a failed obligation
	res := c.runLemmaHarnesses(names, "z3", agg)
	c.confirmLemmaFailures(res, func(id string) string { return "printing obligation " + strings.TrimPrefix(id, "C14/") + " fails" })
	agg.Into(c, "")
	c.Cov("paths_compared", st.compared)
	c.Cov("rule", "print templates (Println/Print/Sprint of each scalar kind, slices and single-entry maps of each kind as element/value/key, multi-operand Println, builtin println, nesting depth 2–5 of slices and single-entry maps, empty and nil containers, containers after deletes / re-inserts / appends / re-slices, float literals around the %v thresholds, NaN/±Inf/−0, integer bounds, wrap-around results) with all scalar leaves symbolic: integers are compared as decimal renderings of the 64-bit value (so uint32 ≥ 2^31 and negative int8 are decided for every value), floats as 'the same float64 reaches the same formatter'; plus harnesses for &{Field:value ...} struct rendering in declaration order and for termination of String(), Sprint, Println and println on cyclic object graphs through struct references, typed containers and containers of `any` (self-cycles, 2- and 3-cycles, through slices and maps); exceeding the engine's call-depth / step bound while rendering is reported as a violation and confirmed by the native helper dying of stack exhaustion")
	c.Assumption("digit generation of fmt/strconv is uninterpreted (dec/flt renderers are injective symbols); multi-entry maps (iteration order) and pointer addresses are outside the claim")
	_ = gosx.Unsat
	return c.Finish(false)
}
