package main

import (
	"encoding/json"
	"fmt"
	"os"
	"strings"

	"verif/engine/gosx"
)

// replayFile re-runs a recorded counterexample against the current /repo tree natively.
// Exit 1 (with a VIOLATION line) if it still reproduces, 0 if it no longer does.
func replayFile(path string) int {
	b, err := os.ReadFile(path)
	if err != nil {
		fatal(err)
	}
	var rec struct {
		Property string
		Key      string
		What     string
		Replay   map[string]json.RawMessage
	}
	if err := json.Unmarshal(b, &rec); err != nil {
		fatal(err)
	}
	var kind string
	json.Unmarshal(rec.Replay["kind"], &kind)
	extra := map[string][]byte{}
	switch rec.Property {
	case "C04":
		src, _ := genC04Lemmas()
		extra["zz_verif_c04.go"] = []byte(src)
	}
	for name, gen := range extraOverlays {
		if name == rec.Property {
			for k, v := range gen() {
				extra[k] = v
			}
		}
	}
	c := newCtx("REPLAY", "quick", 1, "other", extra)
	defer c.Close()
	reproduced := false
	switch kind {
	case "harness":
		var h string
		var vec gosx.Model
		json.Unmarshal(rec.Replay["harness"], &h)
		json.Unmarshal(rec.Replay["vec"], &vec)
		var assertion string
		json.Unmarshal(rec.Replay["assertion"], &assertion)
		var resp struct {
			Failed    []string
			HostPanic string
		}
		out, err := c.Native.RunOnce(map[string]interface{}{"Op": "harness", "Harness": h, "Vec": vec}, &resp, 60)
		fmt.Printf("harness %s vec %v → failed=%v hostpanic=%q err=%v\n%s\n", h, vec, resp.Failed, resp.HostPanic, err, lastLines(out, 5))
		for _, f := range resp.Failed {
			if f == assertion {
				reproduced = true
			}
		}
		if err != nil || resp.HostPanic != "" {
			reproduced = true
		}
	case "prog":
		p := &Prog{}
		json.Unmarshal(rec.Replay["src"], &p.Src)
		json.Unmarshal(rec.Replay["entry"], &p.Entry)
		json.Unmarshal(rec.Replay["params"], &p.Params)
		json.Unmarshal(rec.Replay["results"], &p.Results)
		json.Unmarshal(rec.Replay["mode"], &p.Mode)
		json.Unmarshal(rec.Replay["strlen"], &p.StrLen)
		json.Unmarshal(rec.Replay["files"], &p.Files)
		json.Unmarshal(rec.Replay["reffiles"], &p.RefFiles)
		var m gosx.Model
		json.Unmarshal(rec.Replay["model"], &m)
		var aid string
		json.Unmarshal(rec.Replay["assertion"], &aid)
		if strings.HasSuffix(aid, "/nontermination") {
			p.replayTimeout = 5
		}
		ok, detail := c.replayProg(p, m)
		fmt.Printf("program:\n%s\ninputs: %s\ngoat: %v\ngo:   %v\n", p.Src, modelString(m), detail["goat"], detail["go"])
		reproduced = ok
	default:
		if f := replayKinds[kind]; f != nil {
			reproduced = f(c, rec.Replay)
		} else {
			fatal(fmt.Errorf("unknown replay kind %q", kind))
		}
	}
	if reproduced {
		fmt.Printf("VIOLATION property=%s replay=%s\n", rec.Property, path)
		return 1
	}
	fmt.Println("not reproduced on the current tree")
	return 0
}

func init() {
	replayKinds["c03"] = func(c *Ctx, r map[string]json.RawMessage) bool {
		var src, h string
		var vec gosx.Model
		json.Unmarshal(r["src"], &src)
		json.Unmarshal(r["harness"], &h)
		json.Unmarshal(r["vec"], &vec)
		if h == "" {
			h = "verifC03Eval"
		}
		var resp struct{ HostPanic string }
		out, err := c.Native.RunOnce(map[string]interface{}{"Op": "harness", "Harness": h, "Src": src, "Vec": vec}, &resp, 30)
		fmt.Printf("source %q options %s → hostpanic=%q err=%v %s\n", src, optString(vec), resp.HostPanic, err, lastLines(out, 2))
		return err != nil || resp.HostPanic != ""
	}
	replayKinds["c18"] = func(c *Ctx, r map[string]json.RawMessage) bool {
		p := &c18Prog{nin: 2}
		var cut int
		var m gosx.Model
		json.Unmarshal(r["stmts"], &p.stmts)
		json.Unmarshal(r["globals"], &p.globals)
		json.Unmarshal(r["cut"], &cut)
		json.Unmarshal(r["model"], &m)
		ok, detail := c.replayC18(p, cut, m)
		fmt.Printf("statements %q cut %b inputs %s\nwhole:       %v\nincremental: %v\n", p.stmts, cut, modelString(m), detail["whole"], detail["incremental"])
		return ok
	}
}

var extraOverlays = map[string]func() map[string][]byte{}
var replayKinds = map[string]func(c *Ctx, r map[string]json.RawMessage) bool{}

func selftest() int { return runSelftest() }
