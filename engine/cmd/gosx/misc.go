package main

func selftest() int      { return 0 }
func replayFile(string) int { return 0 }
