package main

import (
	"fmt"
	"os"
	"strings"

	"verif/engine/gosx"
)

func init() {
	checks["DBG"] = func(tier string, seed int64) int {
		c := newCtx("DBG", tier, seed, "other", nil)
		defer c.Close()
		src := os.Getenv("SRC")
		entry := os.Getenv("ENTRY")
		rep := c.Eng.ExploreWith(func(ex *gosx.Exec) {
			ex.InitPackage(c.Eng.Pkg)
			fn := ex.Func("verifEvalCall")
			res, pan := ex.Call(fn, src, entry, uint64(1), gosx.MkSlice(), uint64(0))
			if pan != nil {
				fmt.Println("PANIC:", ex.PanicText(pan))
				return
			}
			fmt.Println("RES:", gosx.ShowValue(res))
			fmt.Println("OUT:", gosx.ShowValue(gosx.MkStr(ex.OutGoat)))
		}, "z3", 1)
		fmt.Printf("%+v\n", rep.ByEnd)
		fmt.Printf("%+v\n", rep.EndMsgs)
		return 0
	}
}

func init() {
	checks["NATIVE"] = func(tier string, seed int64) int {
		c := newCtx("NATIVE", tier, seed, "other", nil)
		defer c.Close()
		b, _ := os.ReadFile(os.Getenv("SRCFILE"))
		var gr nativeProgResp
		req := map[string]interface{}{"Op": "prog", "Prog": map[string]interface{}{"Src": string(b), "Entry": os.Getenv("ENTRY"), "NRes": 1, "Mode": 0}}
		out, err := c.Native.RunOnce(req, &gr, 60)
		fmt.Println(out, err)
		fmt.Printf("%+v\n", gr)
		return 0
	}
}

func init() {
	checks["C12E"] = func(tier string, seed int64) int {
		c := newCtx("C12E", tier, seed, "translation_validation", nil)
		defer c.Close()
		agg, st := NewAgg(), &eqStats{}
		c.runEquiv(genC12E(tier, seed), "z3", agg, st)
		agg.Into(c, "")
		return c.Finish(false)
	}
}

func init() {
	checks["NATIVEH"] = func(tier string, seed int64) int {
		c := newCtx("NATIVEH", tier, seed, "other", nil)
		defer c.Close()
		var resp map[string]interface{}
		vec := map[string]uint64{}
		for _, kv := range strings.Fields(os.Getenv("VEC")) {
			var k string
			var v uint64
			i := strings.Index(kv, "=")
			k = kv[:i]
			fmt.Sscan(kv[i+1:], &v)
			vec[k] = v
		}
		out, err := c.Native.RunOnce(map[string]interface{}{"Op": "harness", "Harness": os.Getenv("HARNESS"), "Src": os.Getenv("SRC"), "Vec": vec}, &resp, 60)
		fmt.Println(out, err)
		return 0
	}
}

func init() {
	checks["C11STEPS"] = func(tier string, seed int64) int {
		tot := map[string]int{}
		for i := 0; i < 300; i++ {
			g := genSliceSteps(i, seed*100000+int64(i), 2+i%5)
			for k, v := range g {
				tot[k] += v
			}
		}
		fmt.Println(tot)
		return 0
	}
}
