package main

import (
	"fmt"
	"os"

	"verif/engine/gosx"
)

func init() {
	checks["DBG"] = func(tier string, seed int64) int {
		c := newCtx("DBG", tier, seed, "other", nil)
		defer c.Close()
		src := os.Getenv("SRC")
		entry := os.Getenv("ENTRY")
		rep := c.Eng.ExploreWith(func(ex *gosx.Exec) {
			ex.InitPackage(c.Eng.Pkg)
			fn := ex.Func("verifEvalCall")
			res, pan := ex.Call(fn, src, entry, uint64(1), gosx.MkSlice(), uint64(0))
			if pan != nil {
				fmt.Println("PANIC:", ex.PanicText(pan))
				return
			}
			fmt.Println("RES:", gosx.ShowValue(res))
			fmt.Println("OUT:", gosx.ShowValue(gosx.MkStr(ex.OutGoat)))
		}, "z3", 1)
		fmt.Printf("%+v\n", rep.ByEnd)
		fmt.Printf("%+v\n", rep.EndMsgs)
		return 0
	}
}

func init() {
	checks["NATIVE"] = func(tier string, seed int64) int {
		c := newCtx("NATIVE", tier, seed, "other", nil)
		defer c.Close()
		b, _ := os.ReadFile(os.Getenv("SRCFILE"))
		var gr nativeProgResp
		req := map[string]interface{}{"Op": "prog", "Prog": map[string]interface{}{"Src": string(b), "Entry": os.Getenv("ENTRY"), "NRes": 1, "Mode": 0}}
		out, err := c.Native.RunOnce(req, &gr, 60)
		fmt.Println(out, err)
		fmt.Printf("%+v\n", gr)
		return 0
	}
}

func init() {
	checks["C12E"] = func(tier string, seed int64) int {
		c := newCtx("C12E", tier, seed, "translation_validation", nil)
		defer c.Close()
		agg, st := NewAgg(), &eqStats{}
		c.runEquiv(genC12E(tier, seed), "z3", agg, st)
		agg.Into(c, "")
		return c.Finish(false)
	}
}
