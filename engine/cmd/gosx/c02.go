package main

import (
	"encoding/json"
	"fmt"
	"go/ast"
	"go/parser"
	"go/token"
	"os"
	"path/filepath"
	"regexp"
	"sort"
	"strconv"
	"strings"
	"sync"

	"verif/engine/gosx"
)

func init() { checks["C02"] = checkC02 }

// typedOpProgs: operations on locals/fields/elements for every numeric type, so that every fused opcode
// (LOCALADD/SUB/MUL/DIV, INCDEC, LOCALINCDEC, FASTGET/SET(INT), FAST*ATTR, FASTCALL(ATTR)) meets every operand type.
func typedOpProgs() []*Prog {
	var progs []*Prog
	id := 0
	add := func(fam string, params []Param, res string, body string, decls string) {
		name := fmt.Sprintf("f%d", id)
		id++
		var ps []string
		for _, p := range params {
			ps = append(ps, p.Name+" "+p.Type)
		}
		src := fmt.Sprintf("package main\n\n%sfunc %s(%s) %s {\n%s}\n", decls, name, strings.Join(ps, ", "), res, body)
		progs = append(progs, &Prog{ID: "typed:" + fam, Src: src, Entry: name, Params: params, Results: []string{res}, Family: "C02/typed/" + fam})
	}
	for _, t := range []string{"int", "byte", "int8", "uint32", "float64"} {
		for _, op := range []string{"+", "-", "*", "/"} {
			add(t+op+"locals", []Param{{"a", t}, {"b", t}}, t, fmt.Sprintf("\treturn a %s b\n", op), "")
			add(t+op+"const", []Param{{"a", t}}, t, fmt.Sprintf("\tx := a\n\tx = x %s 3\n\treturn x\n", op), "")
			add(t+op+"assignop", []Param{{"a", t}, {"b", t}}, t, fmt.Sprintf("\tx := a\n\tx %s= b\n\tx %s= 100\n\treturn x\n", op, op), "")
		}
		add(t+"const-chain", []Param{{"a", t}, {"b", t}}, t, "\tx := a + 1 - 1\n\ty := b - 1 + 1\n\tx = x + 1 + 2\n\tif x > y {\n\t\ty = y + 100 + 100 - 1\n\t}\n\treturn x + y + 1 + 1\n", "")
		add(t+"empty-bodies", []Param{{"a", t}, {"b", t}}, t, "\tx := a\n\tif a > b {\n\t}\n\tif a < b {\n\t} else {\n\t\tx++\n\t}\n\tfor i := 0; i < 2; i++ {\n\t}\n\tswitch {\n\tcase a == b:\n\tdefault:\n\t\tx += 2\n\t}\n\treturn x + b\n", "")
		add(t+"const-index-forms", []Param{{"a", t}, {"b", t}}, t, "\tp := map[float64]"+t+"{5000000000: a, 2.5: b, 3: b}\n\tq := map[int]"+t+"{-1: a, 7: b}\n\ts := []"+t+"{a, b, a}\n\tp[5000000000] += b\n\tp[3] = a\n\tq[-1] += a\n\ts[2] = b\n\tx := p[5000000000] + p[3] + q[-1] + q[7] + s[2] + s[0]\n\tif len(p) != 3 {\n\t\tx += 1\n\t}\n\treturn x\n", "")
		add(t+"incdec", []Param{{"a", t}}, t, "\tx := a\n\tx++\n\tx++\n\ty := x\n\ty--\n\treturn x + y\n", "")
		add(t+"slice-elem", []Param{{"a", t}, {"b", t}}, t, fmt.Sprintf("\ts := []%s{a, b}\n\ts[0] = s[1] + 1\n\ts[1]++\n\ts[0] += 200\n\treturn s[0] + s[1]\n", t), "")
		add(t+"field", []Param{{"a", t}, {"b", t}}, t, "\tp := &P{x: a}\n\tp.x = p.x + b\n\tp.x++\n\tp.x += 100\n\treturn p.x + p.get() + p.add(b)\n",
			fmt.Sprintf("type P struct {\n\tx %s\n}\n\nfunc (p *P) get() %s {\n\treturn p.x\n}\n\nfunc (p *P) add(k %s) %s {\n\treturn p.x + k\n}\n\n", t, t, t, t))
		add(t+"map-elem", []Param{{"a", t}, {"b", t}}, t, fmt.Sprintf("\tm := map[string]%s{\"k\": a}\n\tm[\"k\"] = m[\"k\"] + b\n\tm[\"k\"]++\n\tm[\"j\"] += 200\n\treturn m[\"k\"] + m[\"j\"]\n", t), "")
		add(t+"global-call", []Param{{"a", t}, {"b", t}}, t, "\treturn twice(a) + twice(b) + 1\n", fmt.Sprintf("func twice(v %s) %s {\n\treturn v + v\n}\n\n", t, t))
	}
	// fusable statements inside nested blocks: the length of an inner block is baked into jump distances when the
	// inner block is optimized, and the enclosing block is optimized again afterwards
	stmts := []string{
		"y = xs[1+2]", "y = a + (2 + 3)", "y = xs[1] + b", "xs[2-1] = b\n\t\ty = xs[1]", "y = m[\"k\"] + 1", "y = p.x + b",
		"p.x += 2 + 1\n\t\ty = p.x", "y = twice(a) + 1 + 2", "y = a*2 - 1 + b/3", "y++\n\t\ty += 1 + 1", "y = -a + 4 - 2", "m[\"j\"] = a + 1\n\t\ty = m[\"j\"] - 1 - 1",
	}
	ctxs := map[string]string{
		"if-then":  "\tif c {\n\t\t%s\n\t} else {\n\t\ty = 7\n\t}\n",
		"if-else":  "\tif c {\n\t\ty = 7\n\t} else {\n\t\t%s\n\t}\n",
		"for":      "\tfor i := 0; i < 2; i++ {\n\t\t%s\n\t\tz += y + i\n\t}\n",
		"case":     "\tswitch {\n\tcase c:\n\t\t%s\n\tdefault:\n\t\ty = 7\n\t}\n",
		"case2":    "\tswitch a {\n\tcase 1 + 1:\n\t\ty = 1\n\tcase 2 + 3, b + 1:\n\t\t%s\n\t}\n",
		"nested":   "\tif a > 0 {\n\t\tif c {\n\t\t%s\n\t\t}\n\t\tz = 3\n\t} else {\n\t\ty = 7\n\t}\n",
		"and-rhs":  "\tif c && xs[1+2] > a+(1+1) {\n\t\t%s\n\t}\n",
		"or-rhs":   "\tif c || a+1+1 > xs[2-1] && b > 0 {\n\t\t%s\n\t}\n",
		"range":    "\tfor _, v := range xs {\n\t\tif v > 3 {\n\t\t\tcontinue\n\t\t}\n\t\t%s\n\t\tz += y\n\t}\n",
		"for-post": "\tfor i := 0; i < 1+1; i += 2 - 1 {\n\t\tif c {\n\t\t\tbreak\n\t\t}\n\t\t%s\n\t}\n",
	}
	decl := "type P struct {\n\tx int\n}\n\nfunc twice(v int) int {\n\treturn v + v\n}\n\n"
	var cnames []string
	for ci := range ctxs {
		cnames = append(cnames, ci)
	}
	sort.Strings(cnames)
	for _, ci := range cnames {
		ctx := ctxs[ci]
		for si, st := range stmts {
			body := "\txs := []int{a, b, 3, 4, 5}\n\tm := map[string]int{\"k\": a}\n\tp := &P{x: b}\n\ty, z := 0, 0\n" +
				fmt.Sprintf(ctx, st) + "\ty += 1000\n\tz += xs[0] + m[\"k\"] + p.x\n\treturn y + z\n"
			add(fmt.Sprintf("nested/%s/%d", ci, si), []Param{{"a", "int"}, {"b", "int"}, {"c", "bool"}}, "int", body, decl)
		}
	}
	// expressions spread over several lines whose fused form can fail at run time: the failure line is the same in both modes
	mdecl := "type P struct {\n\tx int\n}\n\nfunc twice(v int) int {\n\treturn v + v\n}\n\n"
	for i, body := range []string{
		"\tr := a /\n\t\tb\n\treturn r\n",
		"\tr := a %\n\t\tb +\n\t\t1\n\treturn r\n",
		"\txs := []int{1, 2}\n\ts := xs[\n\t\tb]\n\treturn s + a\n",
		"\txs := []int{1, 2}\n\txs[\n\t\tb] = a\n\treturn xs[0]\n",
		"\tvar p *P\n\tif c {\n\t\tp = &P{x: a}\n\t}\n\tt := p.\n\t\tx\n\treturn t + b\n",
		"\tvar p *P\n\tif c {\n\t\tp = &P{x: a}\n\t}\n\tp.\n\t\tx = b\n\treturn p.x\n",
		"\tvar m map[string]int\n\tif c {\n\t\tm = map[string]int{}\n\t}\n\tm[\"k\"] =\n\t\ta / b\n\treturn m[\"k\"]\n",
		"\tx := a\n\tx +=\n\t\ttwice(\n\t\t\ta / b)\n\treturn x\n",
		"\txs := []int{1, 2, 3}\n\treturn xs[1+\n\t\t1] / (a -\n\t\tb)\n",
	} {
		add(fmt.Sprintf("multiline-fault/%d", i), []Param{{"a", "int"}, {"b", "int"}, {"c", "bool"}}, "int", body, mdecl)
	}
	return progs
}

var posRE = regexp.MustCompile(`([A-Za-z0-9_./]+\.go):(\d+):\d+`)

// errLine extracts "file:line" of the first position mentioned in an error text.
func errLine(s string) string {
	m := posRE.FindStringSubmatch(s)
	if m == nil {
		return ""
	}
	return m[1] + ":" + m[2]
}

// exploreOpt runs p with the optimizer on (mode 1) and off (mode 2) and asserts identical observable behaviour.
func (c *Ctx) exploreOpt(p *Prog, st *eqStats) *gosx.Report {
	return c.Eng.ExploreWith(func(ex *gosx.Exec) {
		ex.InitPackage(c.Eng.Pkg)
		goatArgs, _, in := c.mkInputs(ex, p)
		if p.Assume != nil {
			p.Assume(ex, in)
		}
		id := p.Family
		entry := ""
		if p.Entry != "" {
			entry = "main." + p.Entry
		}
		run := func(mode int) (goatOutcome, []gosx.Seg, *string) {
			// fresh argument values per run (containers must not be shared between the two VMs)
			res, pan := ex.Call(ex.Func("verifEvalCall"), p.Src, entry, uint64(len(p.Results)), gosx.MkSlice(goatArgs...), uint64(mode))
			out := ex.OutGoat
			ex.OutGoat = nil
			if pan != nil {
				s := ex.PanicText(pan)
				return goatOutcome{}, out, &s
			}
			return c.decodeOutcome(ex, res), out, nil
		}
		o1, out1, hp1 := run(1)
		o2, out2, hp2 := run(2)
		tt := ex.TT()
		if hp1 != nil || hp2 != nil {
			if (hp1 != nil) != (hp2 != nil) {
				ex.Assert(tt.Bool(false), id+"/host-panic", "a Go panic escapes in one optimizer mode only", nil)
			}
			return
		}
		if o1.hasEvalErr != o2.hasEvalErr {
			ex.Assert(tt.Bool(false), id+"/eval-outcome", fmt.Sprintf("Eval fails in one mode only: on=%v off=%v", gosx.ShowValue(o1.evalErr), gosx.ShowValue(o2.evalErr)), nil)
			return
		}
		c.compareStrings(ex, st, id+"/output", "printed output differs between optimizer on and off", gosx.MkStr(out1), gosx.MkStr(out2))
		if o1.hasEvalErr {
			e1, _ := gosx.Lit(o1.evalErr)
			e2, _ := gosx.Lit(o2.evalErr)
			if errLine(e1) != errLine(e2) {
				ex.Assert(tt.Bool(false), id+"/error-line", fmt.Sprintf("Eval error reported at %s (on) vs %s (off)", errLine(e1), errLine(e2)), nil)
			}
			return
		}
		if o1.hasCallErr != o2.hasCallErr {
			ex.Assert(tt.Bool(false), id+"/outcome", fmt.Sprintf("call fails in one mode only: on=%v off=%v", gosx.ShowValue(o1.callErr), gosx.ShowValue(o2.callErr)), nil)
			return
		}
		if o1.hasCallErr {
			e1, _ := gosx.Lit(o1.callErr)
			e2, _ := gosx.Lit(o2.callErr)
			l1, l2 := errLine(strings.SplitN(e1, "\n", 2)[0]), errLine(strings.SplitN(e2, "\n", 2)[0])
			if l1 != l2 {
				ex.Assert(tt.Bool(false), id+"/error-line", fmt.Sprintf("failure reported at %s (on) vs %s (off)", l1, l2), map[string]interface{}{"on": e1, "off": e2})
			}
			st.mu.Lock()
			st.bothPanic++
			st.mu.Unlock()
			return
		}
		if len(o1.rets) != len(o2.rets) {
			ex.Assert(tt.Bool(false), id+"/nresults", fmt.Sprintf("%d values (on) vs %d (off)", len(o1.rets), len(o2.rets)), nil)
			return
		}
		vt := c.Eng.TypeOf("Value")
		for i := range o1.rets {
			c.compareValues(ex, st, fmt.Sprintf("%s/result%d", id, i), o1.rets[i], o2.rets[i], vt)
		}
		st.mu.Lock()
		st.compared++
		st.mu.Unlock()
	}, "z3", 1)
}

// pairNames names the two runs a self-composition check compares.
func (c *Ctx) pairNames() string {
	if c.ID == "C18" {
		return "whole program vs incremental Eval"
	}
	return "optimizer on vs off"
}

// compareValues asserts that two goat Values are indistinguishable: same tag, same number, same payload rendering.
func (c *Ctx) compareValues(ex *gosx.Exec, st *eqStats, id string, a, b gosx.Value, vt interface{}) {
	tt := ex.TT()
	T := c.Eng.TypeOf("Value")
	ta, tb := ex.Field(a, T, "t"), ex.Field(b, T, "t")
	lift := func(v gosx.Value, w int) *gosx.Term {
		switch v := v.(type) {
		case *gosx.Term:
			return v
		case uint64:
			return tt.BV(v, w)
		case float64:
			return tt.FP(v)
		}
		panic(fmt.Sprintf("lift %T", v))
	}
	ex.Assert(tt.Eq(lift(ta, 64), lift(tb, 64)), id+"/type", fmt.Sprintf("dynamic type differs between the two runs (%s): first=%s second=%s", c.pairNames(), gosx.ShowValue(ta), gosx.ShowValue(tb)), nil)
	x, y := lift(ex.Field(a, T, "num"), gosx.SFP), lift(ex.Field(b, T, "num"), gosx.SFP)
	bothNaN := tt.And(tt.FPred(gosx.OpFIsNaN, x), tt.FPred(gosx.OpFIsNaN, y))
	same := tt.And(tt.FCmp(gosx.OpFEq, x, y), tt.Eq(tt.FPred(gosx.OpFIsNeg, x), tt.FPred(gosx.OpFIsNeg, y)))
	ex.Assert(tt.Or(bothNaN, same), id+"/value", "numeric value differs between the two runs ("+c.pairNames()+")", map[string]interface{}{"first": gosx.ShowValue(x), "second": gosx.ShowValue(y)})
	// payload (strings, containers): compare the String() rendering
	sa, pa := ex.Call(ex.Func("verifValueString"), a)
	sb, pb := ex.Call(ex.Func("verifValueString"), b)
	if pa != nil || pb != nil {
		if (pa != nil) != (pb != nil) {
			ex.Assert(tt.Bool(false), id+"/render", "String() panics in one mode only", nil)
		}
		return
	}
	c.compareStrings(ex, st, id+"/render", "rendered value differs between the two runs ("+c.pairNames()+")", sa, sb)
}

// testTableSnippets extracts every string literal of the repository's test files (the In strings of its tables).
func testTableSnippets() []string {
	files, _ := filepath.Glob(filepath.Join(repoDir, "*_test.go"))
	seen := map[string]bool{}
	var out []string
	fset := token.NewFileSet()
	for _, f := range files {
		af, err := parser.ParseFile(fset, f, nil, 0)
		if err != nil {
			continue
		}
		ast.Inspect(af, func(n ast.Node) bool {
			lit, ok := n.(*ast.BasicLit)
			if !ok || lit.Kind != token.STRING {
				return true
			}
			s, err := strconv.Unquote(lit.Value)
			if err != nil || len(s) == 0 || len(s) > 2000 || seen[s] {
				return true
			}
			seen[s] = true
			out = append(out, s)
			return true
		})
	}
	sort.Strings(out)
	return out
}

func checkC02(tier string, seed int64) int {
	c := newCtx("C02", tier, seed, "translation_validation", nil)
	defer c.Close()
	c.Eng.MaxSteps = 6_000_000
	var progs []*Prog
	sample := func(ps []*Prog, n int) []*Prog {
		if tier == "thorough" || len(ps) <= n {
			return ps
		}
		step := len(ps) / n
		var r []*Prog
		for i := 0; i < len(ps); i += step {
			r = append(r, ps[i])
		}
		return r
	}
	corp := map[string]int{}
	addCorpus := func(name string, ps []*Prog) {
		corp[name] = len(ps)
		for _, p := range ps {
			q := *p
			q.Family = "C02/" + name + "/" + strings.TrimPrefix(p.Family, "C")
			progs = append(progs, &q)
		}
	}
	addCorpus("typed-ops", typedOpProgs())
	addCorpus("expressions", sample(genC05(tier, seed), 250))
	addCorpus("control", sample(genC06(tier, seed), 250))
	var sc, cl, sl, stp []*Prog
	for i := 0; i < 60; i++ {
		sc = append(sc, genScopeProg(i, seed*100000+int64(i)))
		cl = append(cl, genCallProg(i, seed*100000+int64(i)))
		sl = append(sl, genSliceProg(i, seed*100000+int64(i), 2+i%5, i%4 == 3))
	}
	stp = genC13(tier)
	for _, p := range stp {
		if len(p.Params) > 0 {
			p.Assume = func(ex *gosx.Exec, in map[string]*gosx.Term) {
				tt := ex.TT()
				for _, n := range []string{"i", "j"} {
					if t, ok := in[n]; ok {
						ex.Assume(tt.Cmp(gosx.OpSLe, tt.BV(uint64(0xfffffffe), 32), t))
						ex.Assume(tt.Cmp(gosx.OpSLe, t, tt.BV(8, 32)))
					}
				}
			}
		}
	}
	addCorpus("scopes", sc)
	addCorpus("calls", cl)
	addCorpus("slices", sl)
	addCorpus("strings", sample(stp, 120))
	addCorpus("structs", genC12E("quick", seed))
	// the repository's own test inputs: evaluated as whole snippets (no entry point, no inputs)
	snips := testTableSnippets()
	for i, s := range snips {
		progs = append(progs, &Prog{ID: fmt.Sprintf("testtable:%d", i), Src: s, Family: fmt.Sprintf("C02/testtable/%q", truncate(s, 60))})
	}
	corp["repo-test-literals"] = len(snips)
	agg, st := NewAgg(), &eqStats{}
	c.mu.Lock()
	c.programs += len(progs)
	c.mu.Unlock()
	var mu sync.Mutex
	type fail struct {
		p *Prog
		f gosx.Failure
	}
	var fails []fail
	if os.Getenv("GOSX_ONLY_WINDOWS") != "" {
		progs = nil
	}
	parallel(len(progs), c.Eng.Workers, func(i int) {
		p := progs[i]
		rep := c.exploreOpt(p, st)
		agg.Add(rep)
		if i%(len(progs)/10+1) == 0 || len(rep.Failures) > 0 {
			c.Sample(map[string]interface{}{"program": truncate(p.Src, 400), "paths": rep.Paths, "paths_by_end": rep.ByEnd, "assertions_discharged": rep.Asserts, "failures": len(rep.Failures)})
		}
		mu.Lock()
		seen := map[string]bool{}
		for _, f := range rep.Failures {
			if !seen[f.ID] {
				seen[f.ID] = true
				fails = append(fails, fail{p, f})
			}
		}
		mu.Unlock()
	})
	c.mu.Lock()
	c.disagree += len(fails)
	c.mu.Unlock()
	parallel(len(fails), 8, func(i int) {
		f := fails[i]
		ok, detail := c.replayOpt(f.p, f.f.Model)
		c.mu.Lock()
		c.replays++
		c.mu.Unlock()
		if !ok {
			c.mu.Lock()
			c.mismatch++
			c.mu.Unlock()
			fmt.Printf("ENGINE-MISMATCH prog=%s assertion=%s model=%v detail=%v\n%s\n", f.p.ID, f.f.ID, f.f.Model, detail, f.p.Src)
			return
		}
		c.AddViolation(Violation{Key: f.f.ID, What: fmt.Sprintf("%s; program %q inputs %s: optimizer on → %v, off → %v", f.f.Msg, oneLine(f.p.Src), modelString(f.f.Model), detail["on"], detail["off"]),
			Replay: map[string]interface{}{"kind": "opt", "src": f.p.Src, "entry": f.p.Entry, "params": f.p.Params, "results": f.p.Results, "model": f.f.Model, "strlen": f.p.StrLen, "assertion": f.f.ID}})
	})
	agg.Into(c, "")
	// rule lemmas (shape L): symbolic instruction windows through the real doOptimize and exec
	if os.Getenv("GOSX_NO_WINDOW") == "" {
		// fix-point window 5 ran clean once on the repaired tree (79 min, 8e6 queries together with the full-kinds
		// value lemma); it is too slow to register, GOSX_C02_FIX=5 reproduces it
		win, fix := 2, 4
		kinds := 0
		if tier == "thorough" {
			kinds = 1
		}
		c.Eng.Cfg = map[string]int{"c02_window": win, "c02_fix_window": fix, "c02_kinds": kinds}
		c.Eng.MaxPaths = 3_000_000
		lagg := NewAgg()
		var res []lemmaResult
		if v := os.Getenv("GOSX_C02_FIX"); v != "" {
			fmt.Sscan(v, &fix)
			c.Eng.Cfg["c02_fix_window"] = fix
		}
		hs := []string{"verifH_C02_fixpoint", "verifH_C02_window"}
		if v := os.Getenv("GOSX_ONLY"); v != "" {
			hs = []string{v}
		}
		for _, h := range hs {
			rep := c.Eng.ExploreWith(func(ex *gosx.Exec) {
				ex.InitPackage(c.Eng.Pkg)
				_, pan := ex.Call(ex.Func(h))
				if pan != nil {
					ex.Assert(ex.TT().Bool(false), h+"/escaping-panic", ex.PanicText(pan), nil)
				}
			}, "z3", c.Eng.Workers)
			lagg.Add(rep)
			c.Sample(map[string]interface{}{"harness": h, "paths": rep.Paths, "paths_by_end": rep.ByEnd, "assertions_discharged": rep.Asserts, "failures": len(rep.Failures), "wall_s": rep.Wall.Seconds()})
			res = append(res, lemmaResult{Name: h, Report: rep, Failures: rep.Failures})
			if os.Getenv("GOSX_VERBOSE") != "" {
				seen := map[string]int{}
				for _, f := range rep.Failures {
					seen[f.ID]++
					if seen[f.ID] <= 4 {
						fmt.Fprintf(os.Stderr, "FAIL %s %s :: %s\n", f.ID, modelString(f.Model), f.Msg)
					}
				}
				fmt.Fprintf(os.Stderr, "failure counts: %v\n", seen)
			}
		}
		c.confirmLemmaFailures(res, func(id string) string { return "optimizer rule lemma " + strings.TrimPrefix(id, "C02/L/") + " fails" })
		lagg.Into(c, "windows_")
		c.Cov("window_bounds", c.Eng.Cfg)
	}
	c.Cov("corpora", corp)
	c.Cov("paths_compared", st.compared)
	c.Cov("both_modes_fail_paths", st.bothPanic)
	c.Cov("rule", "each program is compiled and run twice by goatlang's real code inside the engine — optimizer on and off (in-package pipeline replica of Eval with compiler.Optimize switched) — from identical symbolic inputs; compared: output text, number/dynamic type/value/rendering of results, success vs failure, and the file:line of the failure. Corpora: typed-operation programs (every fused opcode × every numeric type; every fusable statement form inside every kind of nested block with code following it), the C05/C06/C08/C09/C11/C12/C13 generators, and every string literal of the repository's *_test.go files evaluated as a snippet")
	c.Assumption("the optimizer-off pipeline is reachable only in-package; the harness replicates Eval's tokenize→parse→compile→run sequence with compiler.Optimize=false (and =true for the compared run)")
	return c.Finish(false)
}

func truncate(s string, n int) string {
	if len(s) > n {
		return s[:n] + "…"
	}
	return s
}

// replayOpt runs both modes natively.
func (c *Ctx) replayOpt(p *Prog, m gosx.Model) (bool, map[string]interface{}) {
	var args []map[string]interface{}
	for _, pa := range p.Params {
		_, a := concreteArg(pa, m, p.StrLen)
		args = append(args, a)
	}
	entry := ""
	if p.Entry != "" {
		entry = "main." + p.Entry
	}
	run := func(mode int) string {
		var gr nativeProgResp
		req := map[string]interface{}{"Op": "prog", "Prog": map[string]interface{}{"Src": p.Src, "Entry": entry, "NRes": len(p.Results), "Args": args, "Mode": mode}}
		out, err := c.Native.RunOnce(req, &gr, 60)
		gr.fix()
		switch {
		case err != nil:
			return "HOST-CRASH: " + lastLines(out, 3)
		case gr.HostPanic != "":
			return "HOST-PANIC: " + gr.HostPanic
		case gr.EvalErr != "":
			return "EVAL-ERROR at " + errLine(gr.EvalErr)
		}
		s := "out=" + strconv.Quote(gr.Out)
		if gr.CallErr != "" {
			return s + " ERROR at " + errLine(strings.SplitN(gr.CallErr, "\n", 2)[0])
		}
		for i, r := range gr.Rets {
			s += fmt.Sprintf(" ret%d=%s:%s", i, tagName(r.T), r.Str)
		}
		return s
	}
	on, off := run(1), run(2)
	return on != off, map[string]interface{}{"on": on, "off": off}
}

func init() {
	replayKinds["opt"] = func(c *Ctx, r map[string]json.RawMessage) bool {
		p := &Prog{}
		json.Unmarshal(r["src"], &p.Src)
		json.Unmarshal(r["entry"], &p.Entry)
		json.Unmarshal(r["params"], &p.Params)
		json.Unmarshal(r["results"], &p.Results)
		json.Unmarshal(r["strlen"], &p.StrLen)
		var m gosx.Model
		json.Unmarshal(r["model"], &m)
		ok, detail := c.replayOpt(p, m)
		fmt.Printf("program:\n%s\ninputs: %s\noptimizer on:  %v\noptimizer off: %v\n", p.Src, modelString(m), detail["on"], detail["off"])
		return ok
	}
}
