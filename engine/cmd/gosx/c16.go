package main

import (
	"fmt"
	"math/rand"
	"strings"

	"verif/engine/gosx"
)

func init() { checks["C16"] = checkC16 }

var c16Hoistables = []string{
	"type T struct {\n\tv int\n\tnext *T\n}\n",
	"func (t *T) get() int {\n\treturn t.v + K + helper(t.v)\n}\n",
	"func mk(a int) *T {\n\treturn &T{v: a + M}\n}\n",
	"func helper(a int) int {\n\treturn a*K - M\n}\n",
	"type U struct {\n\tt *T\n}\n",
	"func (u *U) sum() int {\n\treturn u.t.get() + M\n}\n",
	"func up(s string) string {\n\treturn fmt.Sprint(strings.Repeat(s, 2))\n}\n",
}

var c16OrderedItems = []string{
	"const K = 10\n",
	"const M = K + 3\n",
	"var g1 = note(1)\n",
	"var g2 = note(g1 + 1)\n",
	"var g3 = note(g2 + K)\n",
	"func init() {\n\tfmt.Println(\"init\", g1, g2, g3)\n}\n",
}

const c16Fixed = `func note(k int) int {
	fmt.Println("note", k)
	return k
}

func Main(a int, b int) int {
	t := mk(a)
	u := &U{t: t}
	fmt.Println(t.get(), helper(b), u.sum(), g1, g2, g3, up("ab"))
	return t.get() + u.sum()
}
`

// genC16Prog places the hoistable declarations in a permuted order, distributed over nfiles files; the ordered
// declarations (var initialisers, init) stay together in their source order in one file.
func genC16Prog(id int, rng *rand.Rand) *Prog {
	perm := rng.Perm(len(c16Hoistables))
	nfiles := 1 + rng.Intn(3)
	names := []string{"a.go", "m.go", "z.go"}[:nfiles]
	bodies := make([]strings.Builder, nfiles)
	usesFmt := make([]bool, nfiles)
	fixedAt := rng.Intn(nfiles)
	// every declaration gets a file; hoistables anywhere, ordered items in non-decreasing file order (files are
	// concatenated in name order, so their relative source order is their order across the files)
	type item struct {
		text    string
		ordered bool
	}
	perFile := make([][]item, nfiles)
	usesStrings := make([]bool, nfiles)
	for _, h := range perm {
		f := rng.Intn(nfiles)
		perFile[f] = append(perFile[f], item{c16Hoistables[h] + "\n", false})
		if strings.Contains(c16Hoistables[h], "strings.") {
			usesStrings[f], usesFmt[f] = true, true
		}
	}
	f := 0
	for _, o := range c16OrderedItems {
		for f < nfiles-1 && rng.Intn(3) == 0 {
			f++
		}
		// insert at a random position after the last ordered item of this file
		pos := 0
		for k, it := range perFile[f] {
			if it.ordered {
				pos = k + 1
			}
		}
		pos += rng.Intn(len(perFile[f]) - pos + 1)
		perFile[f] = append(perFile[f][:pos], append([]item{{o + "\n", true}}, perFile[f][pos:]...)...)
		if strings.Contains(o, "fmt.") {
			usesFmt[f] = true
		}
	}
	for i := range perFile {
		for _, it := range perFile[i] {
			bodies[i].WriteString(it.text)
		}
	}
	bodies[fixedAt].WriteString(c16Fixed)
	usesFmt[fixedAt] = true
	files := map[string]string{}
	var desc []string
	for i, n := range names {
		hdr := "package main\n\n"
		switch {
		case usesFmt[i] && usesStrings[i]:
			hdr += "import (\n\t\"fmt\"\n\t\"strings\"\n)\n\n" // a group whose first entry other files import too
		case usesFmt[i] && id%3 == 0:
			hdr += "import (\n\t\"fmt\"\n)\n\n"
		case usesFmt[i]:
			hdr += "import \"fmt\"\n\n"
		}
		files["main/"+n] = hdr + bodies[i].String()
	}
	if nfiles >= 2 && id%2 == 0 {
		// a _test.go file that sorts before the other files is ignored and does not disturb their order
		files["main/a0_test.go"] = "package main\n\nvar testOnly = note(99)\n"
	}
	desc = append(desc, fmt.Sprint(perm), fmt.Sprint(nfiles))
	p := &Prog{ID: "c16:" + strings.Join(desc, "/"), Files: files, Entry: "Main", Params: []Param{{"a", "int"}, {"b", "int"}}, Results: []string{"int"},
		Family: fmt.Sprintf("C16/E/perm%v/files%d/seed%d", perm, nfiles, id), Src: "package main\n"}
	if id%2 == 1 {
		// the same layout as an IMPORTED package: goatlang loads lib/ through main's import, Go's reference keeps
		// the flattened package (declaration order and file layout are irrelevant in Go either way)
		p.RefFiles = files
		imp := map[string]string{"main/main.go": "package main\n\nimport \"lib\"\n\nfunc Main(a int, b int) int {\n\treturn lib.Main(a, b)\n}\n"}
		for n, body := range files {
			imp["lib/"+strings.TrimPrefix(n, "main/")] = strings.Replace(body, "package main\n", "package lib\n", 1)
		}
		p.Files = imp
		p.ID += "/imported"
		p.Family = strings.Replace(p.Family, "C16/E/", "C16/E/imported/", 1)
	}
	return p
}

func checkC16(tier string, seed int64) int {
	c := newCtx("C16", tier, seed, "model_checking", nil)
	defer c.Close()
	nodes, nprogs := 5, 120
	if tier == "thorough" {
		nodes, nprogs = 6, 1200
	}
	c.Eng.Cfg = map[string]int{"c16_nodes": nodes}
	c.Eng.MaxPaths = 2_000_000
	agg := NewAgg()
	var res []lemmaResult
	for n := 0; n <= nodes; n++ {
		c.Eng.Cfg["c16_nodes"] = n
		rep := c.Eng.ExploreWith(func(ex *gosx.Exec) {
			ex.InitPackage(c.Eng.Pkg)
			_, pan := ex.Call(ex.Func("verifC16TreeSort"))
			if pan != nil {
				ex.Assert(ex.TT().Bool(false), "C16/L/host-panic", ex.PanicText(pan), nil)
			}
		}, "z3", c.Eng.Workers)
		agg.Add(rep)
		c.Sample(map[string]interface{}{"treeSort_nodes": n, "paths": rep.Paths, "paths_by_end": rep.ByEnd, "assertions_discharged": rep.Asserts, "failures": len(rep.Failures)})
		res = append(res, lemmaResult{Name: "verifC16TreeSort", Report: rep, Failures: rep.Failures})
	}
	c.confirmLemmaFailures(res, func(id string) string { return "treeSort obligation " + strings.TrimPrefix(id, "C16/L/") + " fails" })
	agg.Into(c, "treesort_")
	// layouts compared with each other (goatlang against goatlang): declarations named like builtins
	lagg := NewAgg()
	lres := c.runLemmaHarnesses([]string{"verifC16Layouts"}, "z3", lagg)
	c.confirmLemmaFailures(lres, func(id string) string {
		return "layout obligation " + strings.TrimPrefix(id, "C16/layouts/") + " fails"
	})
	lagg.Into(c, "selfcompare_")
	c.Assumption("layout self-comparison: one package with functions named like the builtins len and append, a struct type and a method, in 6 permutations × 6 file splits (1–3 files); every layout must give the result and output of the first layout for every argument (compared between layouts, not with Go: goatlang resolves such names to the builtin)")
	rng := rand.New(rand.NewSource(seed))
	var progs []*Prog
	for i := 0; i < nprogs; i++ {
		progs = append(progs, genC16Prog(i, rng))
	}
	eagg, st := NewAgg(), &eqStats{}
	c.runEquiv(progs, "z3", eagg, st)
	eagg.Into(c, "layouts_")
	c.Cov("layouts_paths_compared", st.compared)
	c.Assumption(fmt.Sprintf("treeSort lemma: every list of 0..%d top-level nodes over 8 node kinds (import, type, const, method, function, init, var, call); sort.SliceStable is modelled as a stable insertion sort calling the real less closure", nodes))
	c.Assumption(fmt.Sprintf("layouts: %d seeded (permutation of 7 hoistable declarations (one of them needs a second import, declared in a group) — struct types, methods and functions referring to each other, to constants and to types defined later, partition into 1–3 files) of one package — every other layout as the top package, the others as a package imported by main — loaded with the real Load from an in-memory tree and compared with Go (whose semantics are order independent); constants, var initialisers and init keep their relative source order (they are spread over the files in non-decreasing file order and interleaved with the hoistables), as the property states", nprogs))
	return c.Finish(false)
}
