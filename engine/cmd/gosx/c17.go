package main

import (
	"strings"

	"verif/engine/gosx"
)

func init() { checks["C17"] = checkC17 }

func checkC17(tier string, seed int64) int {
	c := newCtx("C17", tier, seed, "model_checking", nil)
	defer c.Close()
	steps := 3
	if tier == "thorough" {
		steps = 4 // 5 steps (10 actions each, map-order forks) did not finish within 2 h
	}
	c.Eng.Cfg = map[string]int{"c17_steps": steps}
	c.Eng.MaxPaths = 3_000_000
	c.Eng.MaxSteps = 6_000_000
	// Go's map iteration order is unspecified: the type-merging step of a reload is explored in both orders
	c.Eng.MapOrderHook = gosx.ReverseMapRangesIn("syncFields")
	agg := NewAgg()
	rep := c.Eng.ExploreWith(func(ex *gosx.Exec) {
		ex.InitPackage(c.Eng.Pkg)
		_, pan := ex.Call(ex.Func("verifC17"))
		if pan != nil {
			ex.Assert(ex.TT().Bool(false), "C17/host-panic/"+ex.PanicOrigin(), ex.PanicText(pan), nil)
		}
	}, "z3", c.Eng.Workers)
	agg.Add(rep)
	c.Sample(map[string]interface{}{"history_steps": steps, "paths": rep.Paths, "paths_by_end": rep.ByEnd, "assertions_discharged": rep.Asserts, "failures": len(rep.Failures), "wall_s": rep.Wall.Seconds()})
	c.confirmLemmaFailures([]lemmaResult{{Name: "verifC17", Report: rep, Failures: rep.Failures}}, func(id string) string { return "reload obligation " + strings.TrimPrefix(id, "C17/") + " fails" })
	agg.Into(c, "")
	c.Assumption("histories: initial load of one of 3 versions, then c17_steps actions each chosen symbolically among {reload any version (incl. the same), call the entry point, capture a function value, call the captured function value, create an instance, capture a bound method, call the bound method and a method on the old instance, mutate an initialised package variable}, then a final entry-point call; call arguments symbolic; versions differ in function and method bodies, in a variable initialiser and (the third) in three additional struct fields; ranges over Go maps inside syncFields are explored in insertion and in reverse order; the expected values are the harness's model of the property text (32-bit wrap-around arithmetic)")
	return c.Finish(false)
}
