package main

import (
	"fmt"
	"math/rand"
	"strings"
)

// Struct programs: types with n fields and m methods (n crossing every resize threshold of the field table),
// histories of field writes/reads through several instances and aliases; field values are symbolic labels.
func genStructProg(id int, seed int64, nfields int) *Prog {
	rng := rand.New(rand.NewSource(seed))
	var sb strings.Builder
	sb.WriteString("package main\n\nimport \"fmt\"\n\ntype S struct {\n")
	ftypes := make([]string, nfields)
	for i := 0; i < nfields; i++ {
		ftypes[i] = []string{"int", "int", "int", "byte", "float64", "string", "bool", "*S", "[]int"}[rng.Intn(9)]
		fmt.Fprintf(&sb, "\tf%d %s\n", i, ftypes[i])
	}
	if nfields >= 2 {
		ftypes[1] = "*S" // every type with two or more fields has a reference field (rewritten below)
	}
	sb.Reset()
	sb.WriteString("package main\n\nimport \"fmt\"\n\ntype S struct {\n")
	for i := 0; i < nfields; i++ {
		fmt.Fprintf(&sb, "\tf%d %s\n", i, ftypes[i])
	}
	sb.WriteString("}\n\n")
	nmeth := 1 + rng.Intn(4)
	// every other program creates package-level instances BEFORE (and between) the method declarations: methods are
	// found on every instance of the type, whenever it was created
	early := id%2 == 1
	if early {
		sb.WriteString("var early = &S{}\n\n")
	}
	for m := 0; m < nmeth; m++ {
		fmt.Fprintf(&sb, "func (s *S) m%d(k int) int {\n\treturn k + %d\n}\n\n", m, m*100)
		if early && m == 0 {
			sb.WriteString("var mid = &S{}\n\n")
		}
	}
	var params []Param
	nin := 0
	in := func(t string) string {
		n := fmt.Sprintf("i%d", nin)
		nin++
		params = append(params, Param{n, t})
		return n
	}
	var b strings.Builder
	line := func(f string, a ...interface{}) { b.WriteString("\t" + fmt.Sprintf(f, a...) + "\n") }
	line("a := &S{}")
	line("b := &S{}")
	line("c := a")
	vars := []string{"a", "b", "c"}
	show := func(v string, f int) {
		switch ftypes[f] {
		case "*S":
			line("fmt.Println(%q, %d, %s.f%d == nil)", v, f, v, f)
		case "[]int":
			line("fmt.Println(%q, %d, len(%s.f%d), %s.f%d == nil)", v, f, v, f, v, f)
		default:
			line("fmt.Println(%q, %d, %s.f%d)", v, f, v, f)
		}
	}
	if nfields > 0 {
		// zero values of a sample of fields
		for k := 0; k < 3; k++ {
			show("a", rng.Intn(nfields))
		}
		steps := 6 + rng.Intn(6)
		for s := 0; s < steps; s++ {
			v := vars[rng.Intn(3)]
			f := rng.Intn(nfields)
			switch ftypes[f] {
			case "int":
				var others []int
				for g2, ft := range ftypes {
					if ft == "int" && g2 != f {
						others = append(others, g2)
					}
				}
				if len(others) > 0 && rng.Intn(3) == 0 {
					// one field computed from ANOTHER field of the same instance (and from a field of an alias)
					g2 := others[rng.Intn(len(others))]
					line("%s.f%d = %s.f%d + %d", v, f, v, g2, 1+rng.Intn(3))
					line("%s.f%d = %s.f%d - 1", v, g2, vars[rng.Intn(3)], f)
					show(v, g2)
					break
				}
				switch rng.Intn(3) {
				case 0:
					line("%s.f%d = %s", v, f, in("int"))
				case 1:
					line("%s.f%d += %s", v, f, in("int"))
				default:
					line("%s.f%d = 7", v, f)
				}
			case "byte":
				if rng.Intn(2) == 0 {
					line("%s.f%d = %s", v, f, in("byte"))
				} else {
					line("%s.f%d = 200", v, f)
					line("%s.f%d += 100", v, f)
				}
			case "float64":
				if rng.Intn(2) == 0 {
					line("%s.f%d = %s", v, f, in("float64"))
				} else {
					line("%s.f%d = 1", v, f)
					line("%s.f%d = %s.f%d / 2", v, f, v, f)
				}
			case "string":
				line("%s.f%d = %s.f%d + \"x\"", v, f, v, f)
			case "bool":
				line("%s.f%d = %s", v, f, in("bool"))
			case "*S":
				if rng.Intn(2) == 0 {
					// the receiver of a field target is evaluated before any assignment of the tuple happens
					w := vars[rng.Intn(3)]
					line("%s, %s.f%d = %s, %s", v, v, f, w, vars[rng.Intn(3)])
					for _, x := range vars {
						show(x, f)
					}
					break
				}
				line("%s.f%d = %s", v, f, vars[rng.Intn(3)])
			case "[]int":
				line("%s.f%d = append(%s.f%d, %s)", v, f, v, f, in("int"))
			}
			for _, w := range vars {
				show(w, f)
			}
			if s%3 == 0 {
				g := rng.Intn(nfields)
				show(vars[rng.Intn(3)], g)
			}
		}
	}
	if nfields >= 2 {
		// tuple assignments that rebind a variable and store through it in one statement: the receiver operand is the
		// OLD value of the variable (list-reversal idiom)
		line("p, q := a, b")
		line("p, p.f1 = q, b")
		line("fmt.Println(a.f1 == b, b.f1 == nil, p == b, q == b)")
		line("r := c")
		line("r.f1, r = a, b") // the field target comes first, the rebinding after it
		line("fmt.Println(c.f1 == a, b.f1 == nil, r == b)")
		line("var prev *S")
		line("cur := &S{}")
		line("cur.f1 = &S{}")
		line("n := 0")
		line("for cur != nil {")
		line("\tprev, cur, cur.f1 = cur, cur.f1, prev")
		line("\tn++")
		line("}")
		line("fmt.Println(n, prev != nil, prev.f1 != nil, prev.f1.f1 == nil)")
	}
	for m := 0; m < nmeth; m++ {
		line("fmt.Println(a.m%d(%s), b.m%d(1), c.m%d(2))", m, in("int"), m, m)
		if early {
			line("fmt.Println(early.m%d(3), mid.m%d(4))", m, m)
		}
	}
	name := fmt.Sprintf("f%d", id)
	var ps []string
	for _, p := range params {
		ps = append(ps, p.Name+" "+p.Type)
	}
	fmt.Fprintf(&sb, "func %s(%s) int {\n%s\treturn 0\n}\n", name, strings.Join(ps, ", "), b.String())
	return &Prog{ID: fmt.Sprintf("struct:n%d:%d", nfields, seed), Src: sb.String(), Entry: name, Params: params, Results: []string{"int"}, Family: fmt.Sprintf("C12/E/n%d/seed%d", nfields, seed)}
}

func genC12E(tier string, seed int64) []*Prog {
	sizes := []int{0, 1, 5, 12, 13, 24, 25, 48, 49}
	reps := 6
	if tier == "thorough" {
		sizes = append(sizes, 96, 97, 192, 193, 200)
		reps = 12
	}
	var progs []*Prog
	id := 0
	for _, n := range sizes {
		for r := 0; r < reps; r++ {
			progs = append(progs, genStructProg(id, seed*1000+int64(id), n))
			id++
		}
	}
	return progs
}
