package main

import (
	"fmt"
	"math/rand"
	"strings"

	"verif/engine/gosx"
)

func init() { checks["C06"] = checkC06 }

// Control skeletons: nestings of for / range / switch / if with break / continue / return at every position and a
// trace before and after every construct.  Selectors s0..s3 and the loop bound n are symbolic.

type skel struct {
	sb     strings.Builder
	trace  int
	vars   int
	indent int
	tight  bool // no trace after nested constructs: the inner construct is the last statement of its block
	level  int
}

func (s *skel) line(format string, a ...interface{}) {
	s.sb.WriteString(strings.Repeat("\t", s.indent))
	fmt.Fprintf(&s.sb, format, a...)
	s.sb.WriteByte('\n')
}

func (s *skel) tr() {
	s.trace++
	// steps of one local counter around every trace: a step at the end of a block and the step right after the block
	// are adjacent in the bytecode (code an optimizer might merge across the jump target between them)
	s.line("c++")
	s.line("fmt.Println(%d)", s.trace)
	s.line("c += 2")
}

// a construct is emitted around a body callback; kinds are listed in skelKinds.
type bodyFn func(s *skel, inLoop, inSwitch bool)

var loopKinds = []string{"for3", "forcond", "forinf", "range", "rangekey", "rangeself"}

// loops that reuse ONE variable name at every nesting level (only used in the dedicated triples below)
var sameNameKinds = []string{"for3same", "rangesame"}
var branchKinds = []string{"if", "ifelse", "ifelseif", "swtag:last", "swtag:first", "swtag:mid", "swtag:none", "sw:last", "sw:first", "sw:mid", "sw:none",
	// case expressions that the peephole optimizer rewrites (local+local, local+constant): jump distances over a case
	// must be those of the rewritten code
	"swtagx:last", "swtagx:mid", "swtagx:none", "swx:last", "swx:first", "swx:none",
	// clauses with an EMPTY body (Go: nothing runs, no fall-through into the next clause or the default)
	"swtage:last", "swtage:mid", "swe:last", "swe:none"}

// emitConstruct writes construct kind with `slots` bodies (the i-th branch/loop body is produced by body(i)).
func (s *skel) emitConstruct(kind string, sel int, inLoop, inSwitch bool, body func(i int, inLoop, inSwitch bool)) {
	s.tr()
	v := s.vars
	s.vars++
	switch kind {
	case "for3":
		s.line("for i%d := 0; i%d < n; i%d++ {", v, v, v)
		s.indent++
		s.tr()
		body(0, true, false)
		s.tr()
		s.indent--
		s.line("}")
	case "for3same":
		s.line("for i := 0; i < n; i++ {")
		s.indent++
		s.line("fmt.Println(i)")
		body(0, true, false)
		s.line("fmt.Println(i)")
		s.indent--
		s.line("}")
	case "rangesame":
		s.line("for _, v := range []int{1, 2} {")
		s.indent++
		s.line("fmt.Println(v)")
		body(0, true, false)
		s.line("if v == 2 {")
		s.line("\tbreak")
		s.line("}")
		s.tr()
		s.indent--
		s.line("}")
	case "forcond":
		s.line("j%d := 0", v)
		s.line("for j%d < n {", v)
		s.indent++
		s.line("j%d++", v)
		s.tr()
		body(0, true, false)
		s.tr()
		s.indent--
		s.line("}")
	case "forinf":
		s.line("k%d := 0", v)
		s.line("for {")
		s.indent++
		s.line("if k%d >= n {", v)
		s.line("\tbreak")
		s.line("}")
		s.line("k%d++", v)
		s.tr()
		body(0, true, false)
		s.tr()
		s.indent--
		s.line("}")
	case "range":
		s.line("for _, v%d := range []int{10, 20, 30} {", v)
		s.indent++
		s.line("fmt.Println(v%d)", v)
		body(0, true, false)
		s.tr()
		s.indent--
		s.line("}")
	case "rangeself":
		// the loop variable has the name of the collection it ranges over (the range expression is evaluated outside
		// the scope of the loop variables)
		s.line("w%d := []int{10, 20, 30}", v)
		s.line("for _, w%d := range w%d[n:] {", v, v)
		s.indent++
		s.line("fmt.Println(w%d)", v)
		body(0, true, false)
		s.tr()
		s.indent--
		s.line("}")
	case "rangekey":
		s.line("for x%d := range []int{7, 8} {", v)
		s.indent++
		s.line("fmt.Println(x%d)", v)
		body(0, true, false)
		s.tr()
		s.indent--
		s.line("}")
	case "if":
		s.line("if s%d > 0 {", sel)
		s.indent++
		body(0, inLoop, inSwitch)
		s.indent--
		s.line("}")
	case "ifelse":
		s.line("if s%d > 0 {", sel)
		s.indent++
		body(0, inLoop, inSwitch)
		s.indent--
		s.line("} else {")
		s.indent++
		body(1, inLoop, inSwitch)
		s.indent--
		s.line("}")
	case "ifelseif":
		s.line("if s%d > 1 {", sel)
		s.indent++
		body(0, inLoop, inSwitch)
		s.indent--
		s.line("} else if s%d > 0 {", sel)
		s.indent++
		body(1, inLoop, inSwitch)
		s.indent--
		s.line("} else {")
		s.indent++
		body(2, inLoop, inSwitch)
		s.indent--
		s.line("}")
	default:
		tagged := strings.HasPrefix(kind, "swtag")
		arith := strings.HasPrefix(kind, "swtagx:") || strings.HasPrefix(kind, "swx:")
		other := (sel + 1) % 4
		defPos := kind[strings.Index(kind, ":")+1:]
		if tagged {
			s.line("switch s%d {", sel)
		} else {
			s.line("switch {")
		}
		emptyFirst := strings.HasPrefix(kind, "swtage:") || strings.HasPrefix(kind, "swe:")
		if emptyFirst {
			// an extra leading clause with a case list and no statements at all
			if tagged {
				s.line("case 5, 6:")
				s.line("case 7:")
			} else {
				s.line("case s%d == 5, s%d == 1:", sel, sel)
				s.line("case s%d == 7:", sel)
			}
		}
		emitCase := func(i int) {
			switch {
			case tagged && arith && i == 0:
				s.line("case s%d + 1:", other)
			case tagged && arith:
				s.line("case s%d + s%d, s%d - 2:", other, other, other)
			case tagged:
				s.line("case %d:", i+1)
			case arith && i == 0:
				s.line("case s%d+1 == s%d:", sel, other)
			case arith:
				s.line("case s%d+s%d == 4 || s%d-1 > s%d*2:", sel, other, sel, other)
			default:
				s.line("case s%d == %d:", sel, i+1)
			}
			s.indent++
			body(i, inLoop, true)
			s.indent--
		}
		emitDefault := func() {
			s.line("default:")
			s.indent++
			body(2, inLoop, true)
			s.indent--
		}
		switch defPos {
		case "first":
			emitDefault()
			emitCase(0)
			emitCase(1)
		case "mid":
			emitCase(0)
			emitDefault()
			emitCase(1)
		case "last":
			emitCase(0)
			emitCase(1)
			emitDefault()
		default:
			emitCase(0)
			emitCase(1)
		}
		s.line("}")
	}
	if !(s.tight && s.level > 0) {
		s.tr()
	}
}

func nBodies(kind string) int {
	switch kind {
	case "if":
		return 1
	case "ifelse":
		return 2
	case "ifelseif":
		return 3
	}
	if strings.HasPrefix(kind, "sw") {
		if strings.HasSuffix(kind, ":none") {
			return 2
		}
		return 3
	}
	return 1
}

// skeleton: a path of nested constructs; at the innermost level, in branch `at`, jump `jmp` is placed (before a trace).
type skelSpec struct {
	kinds []string
	at    []int // which body of each construct continues the nesting
	jmp   string
	twin  bool // place an extra jump-free sibling statement after the nest
	tight bool // nested constructs end their enclosing block (no trailing trace)
}

func (sp skelSpec) build(id int) *Prog {
	s := &skel{indent: 1, tight: sp.tight}
	var emit func(level int, inLoop, inSwitch bool)
	emit = func(level int, inLoop, inSwitch bool) {
		s.level = level
		if level == len(sp.kinds) {
			if !sp.tight {
				s.tr()
			}
			switch sp.jmp {
			case "break":
				if inLoop || inSwitch {
					s.line("break")
				}
			case "continue":
				if inLoop {
					s.line("continue")
				}
			case "return":
				s.line("return %d + c", 100+s.trace)
			case "condbreak":
				if inLoop || inSwitch {
					s.line("if s3 > 0 {")
					s.line("\tbreak")
					s.line("}")
					s.tr()
				}
			case "condcontinue":
				if inLoop {
					s.line("if s3 > 0 {")
					s.line("\tcontinue")
					s.line("}")
					s.tr()
				}
			}
			return
		}
		kind := sp.kinds[level]
		s.emitConstruct(kind, level, inLoop, inSwitch, func(i int, il, is bool) {
			if i == sp.at[level]%nBodies(kind) {
				if sp.tight && level+1 < len(sp.kinds) {
					s.tr() // something before the nested construct, nothing after it
				}
				emit(level+1, il, is)
				s.level = level
			} else {
				s.tr()
			}
		})
	}
	emit(0, false, false)
	name := fmt.Sprintf("f%d", id)
	src := fmt.Sprintf("package main\n\nimport \"fmt\"\n\nfunc %s(n int, s0 int, s1 int, s2 int, s3 int) int {\n\tc := 0\n%s\tfmt.Println(\"c\", c)\n\treturn 0\n}\n", name, s.sb.String())
	// unreachable code after a terminating statement makes "declared and not used"-free Go; a trailing return after
	// return/break is legal Go.
	desc := strings.Join(sp.kinds, ">") + fmt.Sprintf("@%v:%s", sp.at, sp.jmp)
	if sp.tight {
		desc += ":tight"
	}
	return &Prog{ID: "skel:" + desc, Src: src, Entry: name,
		Params:  []Param{{"n", "int"}, {"s0", "int"}, {"s1", "int"}, {"s2", "int"}, {"s3", "int"}},
		Results: []string{"int"}, Family: "C06/" + desc,
		Assume: func(ex *gosx.Exec, in map[string]*gosx.Term) {
			tt := ex.TT()
			ex.Assume(tt.Cmp(gosx.OpULe, in["n"], tt.BV(2, 32)))
		}}
}

func validJump(kinds []string, jmp string) bool {
	hasLoop, hasSw := false, false
	for _, k := range kinds {
		if k == "for3" || k == "forcond" || k == "forinf" || k == "range" || k == "rangekey" {
			hasLoop = true
		}
		if strings.HasPrefix(k, "sw") {
			hasSw = true
		}
	}
	switch jmp {
	case "break", "condbreak":
		return hasLoop || hasSw
	case "continue", "condcontinue":
		return hasLoop
	}
	return true
}

func genC06(tier string, seed int64) []*Prog {
	all := append(append([]string{}, loopKinds...), branchKinds...)
	jumps := []string{"none", "break", "continue", "return", "condbreak", "condcontinue"}
	var specs []skelSpec
	// depth 1 and depth 2: exhaustive over kinds × continuation branch × jump
	for _, k1 := range all {
		for a1 := 0; a1 < nBodies(k1); a1++ {
			for _, j := range jumps {
				if validJump([]string{k1}, j) {
					specs = append(specs, skelSpec{kinds: []string{k1}, at: []int{a1}, jmp: j})
				}
			}
			for _, k2 := range all {
				for a2 := 0; a2 < nBodies(k2); a2++ {
					for _, j := range jumps {
						if validJump([]string{k1, k2}, j) {
							specs = append(specs, skelSpec{kinds: []string{k1, k2}, at: []int{a1, a2}, jmp: j})
						}
					}
				}
			}
		}
	}
	// tight twins: the nested construct (and the jump) is the last statement of the enclosing block
	base := len(specs)
	for i := 0; i < base; i++ {
		if len(specs[i].kinds) == 2 && specs[i].jmp != "none" && specs[i].jmp != "condbreak" && specs[i].jmp != "condcontinue" {
			t := specs[i]
			t.tight = true
			specs = append(specs, t)
		}
	}
	rng := rand.New(rand.NewSource(seed))
	depth2 := len(specs)
	// depth 3: seeded sample (quick) / larger sample (thorough)
	n3 := 150
	if tier == "thorough" {
		n3 = 4000
	} else {
		// quick: subsample depth ≤ 2 to keep the run short, but keep every (kind1,kind2,jump) triple at least once
		seen := map[string]bool{}
		var keep []skelSpec
		rng.Shuffle(len(specs), func(i, j int) { specs[i], specs[j] = specs[j], specs[i] })
		isX := func(k string) bool {
			return strings.HasPrefix(k, "swtagx:") || strings.HasPrefix(k, "swx:") || strings.HasPrefix(k, "swtage:") || strings.HasPrefix(k, "swe:")
		}
		partner := map[string]bool{"for3": true, "forinf": true, "range": true, "ifelse": true, "swtag:mid": true, "sw:last": true}
		for _, sp := range specs {
			if len(sp.kinds) == 2 {
				// quick: switches with rewritten case expressions are paired with a representative of every other family
				x0, x1 := isX(sp.kinds[0]), isX(sp.kinds[1])
				if (x0 && x1) || (x0 && !partner[sp.kinds[1]]) || (x1 && !partner[sp.kinds[0]]) {
					continue
				}
			}
			k := strings.Join(sp.kinds, ">") + ":" + sp.jmp + fmt.Sprint(sp.tight)
			if !seen[k] || (strings.HasPrefix(sp.kinds[len(sp.kinds)-1], "sw") && sp.at[len(sp.at)-1] == 2) {
				seen[k] = true
				keep = append(keep, sp)
			}
		}
		specs = keep
	}
	for i := 0; i < n3; i++ {
		ks := []string{all[rng.Intn(len(all))], all[rng.Intn(len(all))], all[rng.Intn(len(all))]}
		j := jumps[rng.Intn(len(jumps))]
		if !validJump(ks, j) {
			continue
		}
		specs = append(specs, skelSpec{kinds: ks, at: []int{rng.Intn(3), rng.Intn(3), rng.Intn(3)}, jmp: j, tight: rng.Intn(3) == 0 && (j == "break" || j == "continue" || j == "return")})
	}
	// the same loop variable name redeclared at three nesting levels
	for _, k1 := range sameNameKinds {
		for _, k3 := range sameNameKinds {
			for _, j := range jumps {
				specs = append(specs, skelSpec{kinds: []string{k1, k1, k3}, at: []int{0, 0, 0}, jmp: j})
			}
		}
	}
	var progs []*Prog
	for i, sp := range specs {
		progs = append(progs, sp.build(i))
	}
	_ = depth2
	return progs
}

func checkC06(tier string, seed int64) int {
	c := newCtx("C06", tier, seed, "translation_validation", nil)
	defer c.Close()
	c.Eng.MaxSteps = 6_000_000
	progs := genC06(tier, seed)
	agg, st := NewAgg(), &eqStats{}
	c.runEquiv(progs, "z3", agg, st)
	agg.Into(c, "")
	c.Cov("rule", "control skeletons: nestings (depth 1–2 over all 27 construct kinds (incl. switches whose case expressions are case lists / arithmetic the optimizer rewrites, and switches with empty clauses) × continuation branch × {none, break, continue, return, conditional break/continue}; depth 3 seeded sample) of for(3-clause, cond-only, infinite), range(value, key), switch(tagged/tagless × default first/middle/last/absent), if/else-if/else, with a trace print before and after every construct; selectors s0..s3 and loop bound n (assumed ≤ 2) symbolic; quick keeps one skeleton per (kinds, jump) plus every default-clause placement")
	c.Cov("paths_compared", st.compared)
	c.Assumption("loop bound n ≤ 2 (unwinding: engine step bound 6e6 per path, exceeding it is reported as unwind, never as success)")
	c.Assumption("trace = fmt.Println of distinct constants; the compared observable is the exact output text and the returned value")
	return c.Finish(false)
}
