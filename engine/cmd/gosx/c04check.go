package main

import "strings"

func init() { checks["C04"] = checkC04 }

func checkC04(tier string, seed int64) int {
	src, names := genC04Lemmas()
	c := newCtx("C04", tier, seed, "model_checking", map[string][]byte{"zz_verif_c04.go": []byte(src)})
	defer c.Close()
	agg := NewAgg()
	res := c.runLemmaHarnesses(names, "z3", agg)
	c.confirmLemmaFailures(res, func(id string) string {
		return "numeric lemma " + strings.TrimPrefix(id, "C04/L/") + " does not hold for every operand value"
	})
	agg.Into(c, "lemmas_")
	c.Cov("lemma_harnesses", len(names))
	// syntactic positions (shape E): the same operators through the compiler paths that pick the instruction
	eagg, st := NewAgg(), &eqStats{}
	pos := c04PositionProgs()
	pos = append(pos, typedOpProgs()...)
	c.runEquiv(pos, "z3", eagg, st)
	eagg.Into(c, "positions_")
	c.Cov("positions_paths_compared", st.compared)
	c.Cov("positions_rule", "for each of int, byte, int8, uint32, float64 and boundary constants of the type: var x T = c, x := T(c), x op c, c op x, x op= c (all operators of the type), ++/--, constant adoption by parameter/result/field/element/map value, conversions between all 25 type pairs (float→int on small operands), comparisons, unary minus/complement, shifts by a variable count; operands symbolic, reference = Go/386")
	return c.Finish(false)
}
