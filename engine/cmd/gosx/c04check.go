package main

import "strings"

func init() { checks["C04"] = checkC04 }

func checkC04(tier string, seed int64) int {
	src, names := genC04Lemmas()
	c := newCtx("C04", tier, seed, "model_checking", map[string][]byte{"zz_verif_c04.go": []byte(src)})
	defer c.Close()
	agg := NewAgg()
	res := c.runLemmaHarnesses(names, "z3", agg)
	c.confirmLemmaFailures(res, func(id string) string {
		return "numeric lemma " + strings.TrimPrefix(id, "C04/L/") + " does not hold for every operand value"
	})
	agg.Into(c, "lemmas_")
	c.Cov("lemma_harnesses", len(names))
	return c.Finish(false)
}
