package main

import (
	"fmt"
	"math/rand"
	"strings"
)

func init() { checks["C09"] = checkC09 }

// Call programs: a callee with a generated signature, called in one of the call forms; all scalar arguments are
// distinct symbolic inputs (labels), so a misdelivered argument or result is observable.

type callGen struct {
	rng    *rand.Rand
	params []Param // inputs of the entry function
	decls  strings.Builder
	body   strings.Builder
	nin    int
}

func (g *callGen) input(t string) string {
	n := fmt.Sprintf("i%d", g.nin)
	g.nin++
	g.params = append(g.params, Param{n, t})
	return n
}

var callParamTypes = []string{"int", "byte", "float64", "bool", "string", "[]int", "*T", "func(int) int", "int8", "uint32"}
var callResultTypes = []string{"int", "byte", "float64", "bool", "string", "int8", "uint32"}

// argFor returns an argument expression of type t: a fresh symbolic input, an untyped constant or nil.
func (g *callGen) argFor(t string, allowConst bool) string {
	k := g.rng.Intn(5)
	switch t {
	case "int", "byte", "float64", "int8", "uint32":
		if allowConst && k == 0 {
			if g.rng.Intn(2) == 0 { // a constant near the bounds of the declared type
				switch t {
				case "uint32":
					return []string{"3000000000", "4294967295", "2147483648"}[g.rng.Intn(3)]
				case "byte":
					return []string{"255", "128", "200"}[g.rng.Intn(3)]
				case "int8":
					return []string{"-128", "127", "-1"}[g.rng.Intn(3)]
				case "float64":
					return []string{"2.5", "1e10", "-0.5", "3"}[g.rng.Intn(4)]
				case "int":
					return []string{"2147483647", "-2147483648", "-7"}[g.rng.Intn(3)]
				}
			}
			return []string{"7", "0", "100", "1"}[g.rng.Intn(4)]
		}
		return g.input(t)
	case "bool":
		if allowConst && k == 0 {
			return "true"
		}
		return g.input("bool")
	case "string":
		return []string{`"s"`, `"hello"`, `""`}[g.rng.Intn(3)]
	case "[]int":
		if allowConst && k == 0 {
			return "nil"
		}
		return fmt.Sprintf("[]int{%s, %s}", g.input("int"), g.input("int"))
	case "*T":
		if allowConst && k == 0 {
			return "nil"
		}
		return fmt.Sprintf("&T{v: %s}", g.input("int"))
	case "func(int) int":
		if allowConst && k == 0 {
			return "nil"
		}
		return []string{"inc", "dbl"}[g.rng.Intn(2)]
	}
	panic(t)
}

// useParam renders a parameter inside the callee for printing.
func useParam(name, t string) string {
	switch t {
	case "*T":
		return fmt.Sprintf("tv(%s)", name)
	case "func(int) int":
		return fmt.Sprintf("fv(%s)", name)
	case "[]int":
		return name + ", len(" + name + ")"
	case "int", "byte", "int8", "uint32":
		return name + ", " + name + "*" + name + ", " + name + "*" + name + "*" + name + "*" + name + "*" + name // powers reveal the static type through wrap-around
	case "float64":
		return name + ", " + name + "*" + name + ", " + name + "/2" // the quotient reveals an operand that stayed an integer constant
	}
	return name
}

func genCallProg(id int, seed int64) *Prog {
	g := &callGen{rng: rand.New(rand.NewSource(seed))}
	rng := g.rng
	np := rng.Intn(6)
	nr := rng.Intn(4)
	variadic := rng.Intn(3) == 0
	var ptypes []string
	for i := 0; i < np; i++ {
		if i > 0 && rng.Intn(3) == 0 {
			ptypes = append(ptypes, ptypes[i-1]) // neighbours of one type (grouped declarations)
			continue
		}
		ptypes = append(ptypes, callParamTypes[rng.Intn(len(callParamTypes))])
	}
	var rtypes []string
	for i := 0; i < nr; i++ {
		rtypes = append(rtypes, callResultTypes[rng.Intn(len(callResultTypes))])
	}
	form := []string{"stmt", "assign", "wrapper", "expr", "method", "methodvalue", "funcvar", "field", "param", "lambda"}[rng.Intn(10)]
	if form == "expr" {
		rtypes = []string{"int"}
		nr = 1
	}
	if form == "field" || form == "param" || form == "lambda" {
		variadic = false
	}
	// callee signature
	var sig, names []string
	blank := map[int]bool{}
	if rng.Intn(4) == 0 { // some parameters are blank (_): they still take their argument
		for i := range ptypes {
			if rng.Intn(2) == 0 {
				blank[i] = true
			}
		}
	}
	for i, t := range ptypes {
		if blank[i] {
			names = append(names, "_")
			sig = append(sig, "_ "+t)
			continue
		}
		names = append(names, fmt.Sprintf("p%d", i))
		sig = append(sig, fmt.Sprintf("p%d %s", i, t))
	}
	// consecutive parameters of one type are sometimes declared as a group (a, b T)
	if rng.Intn(2) == 0 {
		var grouped []string
		for i := 0; i < len(ptypes); {
			j := i
			for j+1 < len(ptypes) && ptypes[j+1] == ptypes[i] {
				j++
			}
			grouped = append(grouped, strings.Join(names[i:j+1], ", ")+" "+ptypes[i])
			i = j + 1
		}
		sig = grouped
	}
	vt := ""
	if variadic {
		vt = []string{"int", "byte", "string", "float64", "int8", "uint32"}[rng.Intn(6)]
		sig = append(sig, "rest ..."+vt)
	}
	// callee body
	var cb strings.Builder
	var uses []string
	for i, t := range ptypes {
		if !blank[i] {
			uses = append(uses, useParam(names[i], t))
		}
	}
	if variadic {
		uses = append(uses, "len(rest)")
	}
	cb.WriteString("\tfmt.Println(\"callee\"")
	for _, u := range uses {
		cb.WriteString(", " + u)
	}
	cb.WriteString(")\n")
	if variadic {
		cb.WriteString("\tfor _, r := range rest {\n\t\tfmt.Println(\"rest\", " + useParam("r", vt) + ")\n\t}\n")
	}
	var rets []string
	for _, rt := range rtypes {
		// a parameter of that type if there is one, else a constant
		var cands []string
		for i, t := range ptypes {
			if t == rt && !blank[i] {
				cands = append(cands, names[i])
			}
		}
		if len(cands) > 0 && rng.Intn(4) != 0 {
			rets = append(rets, cands[rng.Intn(len(cands))])
			continue
		}
		switch rt {
		case "bool":
			rets = append(rets, "true")
		case "string":
			rets = append(rets, `"r"`)
		case "float64":
			rets = append(rets, []string{"2", "2.5"}[rng.Intn(2)])
		default:
			rets = append(rets, []string{"3", "100", "0"}[rng.Intn(3)])
		}
	}
	if nr > 0 {
		cb.WriteString("\treturn " + strings.Join(rets, ", ") + "\n")
	}
	rsig := ""
	switch nr {
	case 0:
	case 1:
		rsig = " " + rtypes[0]
	default:
		rsig = " (" + strings.Join(rtypes, ", ") + ")"
	}
	recv := ""
	if form == "method" || form == "methodvalue" {
		recv = "(t *T) "
		cb.WriteString("")
	}
	var d strings.Builder
	d.WriteString("package main\n\nimport \"fmt\"\n\ntype T struct {\n\tv int\n}\n\n")
	d.WriteString("func inc(a int) int {\n\treturn a + 1\n}\n\nfunc dbl(a int) int {\n\treturn a * 2\n}\n\n")
	d.WriteString("func tv(t *T) int {\n\tif t == nil {\n\t\treturn -1\n\t}\n\treturn t.v\n}\n\n")
	d.WriteString("func fv(f func(int) int) int {\n\tif f == nil {\n\t\treturn -2\n\t}\n\treturn f(20)\n}\n\n")
	if recv != "" {
		fmt.Fprintf(&d, "func %scallee(%s)%s {\n\tfmt.Println(\"recv\", t.v)\n%s}\n\n", recv, strings.Join(sig, ", "), rsig, cb.String())
	} else if form != "lambda" {
		fmt.Fprintf(&d, "func callee(%s)%s {\n%s}\n\n", strings.Join(sig, ", "), rsig, cb.String())
	}
	// arguments
	var args []string
	for _, t := range ptypes {
		args = append(args, g.argFor(t, true))
	}
	spreadDecl := ""
	if variadic {
		switch rng.Intn(3) {
		case 0: // no extras
		case 1:
			n := 1 + rng.Intn(3)
			mix := rng.Intn(3) // 0: any; 1: typed first, constants after; 2: constant first, typed after
			for i := 0; i < n; i++ {
				switch {
				case vt == "string" || mix == 0:
					args = append(args, g.argFor(vt, true))
				case (mix == 1) == (i == 0):
					args = append(args, g.input(vt))
				default:
					args = append(args, []string{"7", "3", "100", "1"}[rng.Intn(4)])
				}
			}
		default:
			if vt == "string" {
				spreadDecl = "\tsp := []string{\"x\", \"y\"}\n"
			} else {
				spreadDecl = fmt.Sprintf("\tsp := []%s{%s, %s}\n", vt, g.input(vt), g.input(vt))
			}
			args = append(args, "sp...")
		}
	}
	argl := strings.Join(args, ", ")
	// caller
	var b strings.Builder
	b.WriteString("\tmark := " + g.input("int") + "\n")
	b.WriteString(spreadDecl)
	target := "callee"
	ftype := "func(" + strings.Join(ptypes, ", ") + ")" + rsig
	switch form {
	case "method":
		b.WriteString("\tt := &T{v: " + g.input("int") + "}\n")
		target = "t.callee"
	case "methodvalue":
		b.WriteString("\tt := &T{v: " + g.input("int") + "}\n\tmv := t.callee\n\tt = &T{v: 0}\n\t_ = t\n")
		target = "mv"
	case "funcvar":
		b.WriteString("\tfvv := callee\n")
		target = "fvv"
	case "field":
		fmt.Fprintf(&d, "type H struct {\n\tfn %s\n}\n\n", ftype)
		b.WriteString("\th := &H{fn: callee}\n")
		target = "h.fn"
	case "param":
		var as, ns []string
		for i, t := range ptypes {
			as = append(as, fmt.Sprintf("a%d %s", i, t))
			ns = append(ns, fmt.Sprintf("a%d", i))
		}
		ret := ""
		if nr > 0 {
			ret = "return "
		}
		fmt.Fprintf(&d, "func apply(f %s%s)%s {\n\t%sf(%s)\n}\n\n", ftype, prefixComma(as), rsig, ret, strings.Join(ns, ", "))
		target = "apply"
		if argl == "" {
			argl = "callee"
		} else {
			argl = "callee, " + argl
		}
	case "wrapper":
		var as, ns []string
		for i, t := range ptypes {
			as = append(as, fmt.Sprintf("a%d %s", i, t))
			ns = append(ns, fmt.Sprintf("a%d", i))
		}
		if variadic {
			as = append(as, "more ..."+vt)
			ns = append(ns, "more...")
		}
		ret := ""
		if nr > 0 {
			ret = "return "
		}
		fmt.Fprintf(&d, "func wrap(%s)%s {\n\t%scallee(%s)\n}\n\n", strings.Join(as, ", "), rsig, ret, strings.Join(ns, ", "))
		target = "wrap"
	case "lambda":
		fmt.Fprintf(&b, "\tlam := func(%s)%s {\n%s\t}\n", strings.Join(sig, ", "), rsig, indentText(cb.String()))
		target = "lam"
	}
	call := fmt.Sprintf("%s(%s)", target, argl)
	var rn []string
	for i := range rtypes {
		rn = append(rn, fmt.Sprintf("r%d", i))
	}
	switch {
	case form == "expr":
		b.WriteString("\tfmt.Println(mark + " + call + " * 2)\n")
	case nr == 0 || form == "stmt":
		b.WriteString("\t" + call + "\n")
	default:
		b.WriteString("\t" + strings.Join(rn, ", ") + " := " + call + "\n")
		b.WriteString("\tfmt.Println(\"results\", " + strings.Join(rn, ", ") + ")\n")
		for i, rt := range rtypes {
			if rt != "string" && rt != "bool" {
				fmt.Fprintf(&b, "\tfmt.Println(\"sq\", r%d*r%d+r%d)\n", i, i, i)
			}
		}
	}
	b.WriteString("\tfmt.Println(\"mark\", mark)\n\treturn mark\n")
	name := fmt.Sprintf("f%d", id)
	var ps []string
	for _, p := range g.params {
		ps = append(ps, p.Name+" "+p.Type)
	}
	fmt.Fprintf(&d, "func %s(%s) int {\n%s}\n", name, strings.Join(ps, ", "), b.String())
	return &Prog{ID: fmt.Sprintf("call:%d", seed), Src: d.String(), Entry: name, Params: g.params, Results: []string{"int"},
		Family: fmt.Sprintf("C09/%s/seed%d", form, seed), Tags: map[string]string{"form": form}}
}

func prefixComma(l []string) string {
	if len(l) == 0 {
		return ""
	}
	return ", " + strings.Join(l, ", ")
}

func indentText(s string) string {
	var out []string
	for _, l := range strings.Split(strings.TrimRight(s, "\n"), "\n") {
		out = append(out, "\t"+l)
	}
	return strings.Join(out, "\n") + "\n"
}

// recursion: concrete depth, symbolic accumulator
func recursionProg(id, depth int) *Prog {
	name := fmt.Sprintf("f%d", id)
	src := fmt.Sprintf(`package main

func rec(n int, acc int, k byte) int {
	if n == 0 {
		return acc + int(k)
	}
	return rec(n-1, acc+n, k)
}

func %s(a int, k byte) int {
	return rec(%d, a, k)
}
`, name, depth)
	return &Prog{ID: fmt.Sprintf("rec:%d", depth), Src: src, Entry: name, Params: []Param{{"a", "int"}, {"k", "byte"}}, Results: []string{"int"}, Family: fmt.Sprintf("C09/recursion%d", depth)}
}

// variadicLifetimeProgs: the slice a variadic call packs is a fresh one per call (it may be kept, returned or read
// after a nested call of the same function), and a spread slice is passed through unchanged (callee writes are seen
// by the caller).
func variadicLifetimeProgs(base int) []*Prog {
	mk := func(i int, name, decls, body string, params []Param) *Prog {
		fn := fmt.Sprintf("f%d", base+i)
		var ps []string
		for _, p := range params {
			ps = append(ps, p.Name+" "+p.Type)
		}
		src := "package main\n\nimport \"fmt\"\n\ntype T struct {\n\tv int\n}\n\n" + decls + fmt.Sprintf("func %s(%s) int {\n%s}\n", fn, strings.Join(ps, ", "), body)
		return &Prog{ID: "variadic-lifetime:" + name, Src: src, Entry: fn, Params: params, Results: []string{"int"}, Family: "C09/variadic-lifetime/" + name, Tags: map[string]string{"form": "variadic-lifetime"}}
	}
	abc := []Param{{"a", "int"}, {"b", "int"}, {"c", "int"}}
	return []*Prog{
		mk(0, "kept", "func keep(xs ...int) []int {\n\treturn xs\n}\n\n",
			"\tp := keep(a, b, c)\n\tq := keep(7, 8)\n\tr := keep(c)\n\tfmt.Println(p, q, r, len(p), len(q))\n\tp[0] = 99\n\tfmt.Println(p, q, r)\n\treturn p[1] + q[0] + r[0]\n", abc),
		mk(1, "read-after-nested-call", "func rec(d int, xs ...int) int {\n\tif d > 0 {\n\t\trec(d-1, xs[0]+1, 5)\n\t}\n\ts := 0\n\tfor _, x := range xs {\n\t\ts = s*3 + x\n\t}\n\tfmt.Println(d, xs, s)\n\treturn s\n}\n\n",
			"\treturn rec(2, a, b, c) + rec(1, c)\n", abc),
		mk(2, "method-value", "func (t *T) keep(xs ...int) []int {\n\txs[0] += t.v\n\treturn xs\n}\n\n",
			"\tt := &T{v: a}\n\tk := t.keep\n\tp := k(b, c)\n\tq := k(1, 2, 3)\n\tr := t.keep(c, b)\n\tfmt.Println(p, q, r)\n\treturn p[0] + q[2] + r[1]\n", abc),
		mk(3, "spread-passes-through", "func bump(xs ...int) int {\n\tif len(xs) > 0 {\n\t\txs[0] += 100\n\t}\n\treturn len(xs)\n}\n\n",
			"\ts := []int{a, b, c}\n\tn := bump(s...)\n\tm := bump(a, b)\n\tvar e []int\n\tz := bump(e...)\n\tfmt.Println(s, n, m, z, a, b)\n\treturn s[0]\n", abc),
		mk(4, "stored-in-struct", "type H struct {\n\tkeep []int\n}\n\nfunc (h *H) take(xs ...int) {\n\th.keep = xs\n}\n\n",
			"\th1 := &H{}\n\th2 := &H{}\n\th1.take(a, b)\n\th2.take(c, 4)\n\th1.keep[1] = 50\n\tfmt.Println(h1.keep, h2.keep)\n\treturn h1.keep[0] + h2.keep[0]\n", abc),
	}
}

func checkC09(tier string, seed int64) int {
	c := newCtx("C09", tier, seed, "translation_validation", nil)
	defer c.Close()
	c.Eng.MaxDepth = 60000
	c.Eng.MaxSteps = 30_000_000
	n := 400
	depths := []int{1, 10, 300}
	if tier == "thorough" {
		n = 5000
		depths = []int{1, 10, 300, 1000, 3000}
	}
	var progs []*Prog
	forms := map[string]int{}
	for i := 0; i < n; i++ {
		p := genCallProg(i, seed*100000+int64(i))
		forms[p.Tags["form"]]++
		progs = append(progs, p)
	}
	for i, d := range depths {
		progs = append(progs, recursionProg(n+i, d))
	}
	progs = append(progs, variadicLifetimeProgs(n+len(depths))...)
	agg, st := NewAgg(), &eqStats{}
	c.runEquiv(progs, "z3", agg, st)
	agg.Into(c, "")
	c.Cov("call_forms", forms)
	c.Cov("recursion_depths", depths)
	c.Cov("rule", "seeded call programs: callee with 0–5 parameters (some of them blank `_`) over {int, byte, int8, uint32, float64, bool, string, []int, *T, func(int) int}, optional variadic tail (int/byte/string/float64/int8/uint32; none, 1–3 extras mixing typed values and untyped constants in either order, or spread s...); parameters and variadic elements are printed with powers / quotients that reveal their static type, 0–3 results; call forms statement, multi-assign, return f() wrapper, inside an expression, method, method value taken before the receiver variable is reassigned, function variable, struct field of func type, func parameter, func literal; arguments are distinct symbolic inputs, untyped constants or nil; plus recursion to the listed concrete depths with symbolic accumulator; plus variadic-lifetime programs (packed slices kept / returned / stored / read after a nested call of the same function or method value; spread slices passed through and written by the callee)")
	c.Cov("paths_compared", st.compared)
	return c.Finish(false)
}
