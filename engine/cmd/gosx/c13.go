package main

import (
	"fmt"
	"strings"

	"verif/engine/gosx"
)

func init() { checks["C13"] = checkC13 }

type strTemplate struct {
	name    string
	nstr    int      // number of symbolic string parameters (s, t)
	extra   []Param  // further scalar parameters
	results []string // Go result types
	body    string
	imports bool
}

var strTemplates = []strTemplate{
	{"len", 1, nil, []string{"int"}, "\treturn len(s)\n", false},
	{"index", 1, []Param{{"i", "int"}}, []string{"byte"}, "\treturn s[i]\n", false},
	{"index-digit", 1, []Param{{"i", "int"}}, []string{"bool"}, "\treturn s[i]-'0' <= 9\n", false},
	{"index-arith", 1, []Param{{"i", "int"}}, []string{"byte"}, "\tc := s[i]\n\treturn c + c\n", false},
	{"slice", 1, []Param{{"i", "int"}, {"j", "int"}}, []string{"string"}, "\treturn s[i:j]\n", false},
	{"slice-from", 1, []Param{{"i", "int"}}, []string{"string"}, "\treturn s[i:]\n", false},
	{"slice-to", 1, []Param{{"j", "int"}}, []string{"string"}, "\treturn s[:j]\n", false},
	{"range", 1, nil, []string{"int"}, "\tn := 0\n\tfor i, r := range s {\n\t\tfmt.Println(i, r)\n\t\tn++\n\t}\n\treturn n\n", true},
	{"range-key", 1, nil, []string{"int"}, "\tn := 0\n\tfor i := range s {\n\t\tn = n*10 + i\n\t}\n\treturn n\n", false},
	{"bytes", 1, nil, []string{"int"}, "\tb := []byte(s)\n\tfmt.Println(b)\n\treturn len(b)\n", true},
	{"bytes-roundtrip", 1, nil, []string{"string"}, "\tb := []byte(s)\n\treturn string(b)\n", false},
	{"bytes-independent", 1, nil, []string{"string"}, "\tb := []byte(s)\n\tif len(b) > 0 {\n\t\tb[0] = 65\n\t}\n\tfmt.Println(string(b))\n\treturn s\n", true},
	{"rune-string", 0, []Param{{"r", "rune"}}, []string{"string"}, "\treturn string(r)\n", false},
	{"byte-string", 0, []Param{{"b", "byte"}}, []string{"string"}, "\treturn string(rune(b))\n", false},
	{"byte-string-direct", 0, []Param{{"b", "byte"}}, []string{"string"}, "\treturn string(b)\n", false},
	{"index-string", 1, []Param{{"i", "int"}}, []string{"string"}, "\treturn string(s[i])\n", false},
	{"bytes-elem-string", 1, []Param{{"i", "int"}}, []string{"string"}, "\tb := []byte(s)\n\treturn string(b[i])\n", false},
	{"int-string", 0, []Param{{"r", "int"}}, []string{"string"}, "\treturn string(rune(r))\n", false},
	{"index-rune", 1, []Param{{"i", "int"}}, []string{"rune"}, "\treturn rune(s[i])\n", false},
	{"index-int", 1, []Param{{"i", "int"}}, []string{"int"}, "\treturn int(s[i]) * 3\n", false},
	{"concat-index", 1, []Param{{"i", "int"}}, []string{"string"}, "\treturn s + string(s[i]) + string(rune(s[i]))\n", false},
	{"bytes-literal", 1, []Param{{"i", "int"}, {"b", "byte"}}, []string{"string"}, "\treturn string([]byte{s[i], b, 0xff, 'a'})\n", false},
	{"len-conv", 0, []Param{{"b", "byte"}, {"r", "rune"}}, []string{"int"}, "\treturn len(string(b))*10 + len(string(r))\n", false},
	{"raw-and-interpreted-same-body", 1, nil, []string{"int"}, "\ta := \"x\\ty\\n\"\n\tb := `x\\ty\\n`\n\tc := \"q\\\\z\"\n\td := `q\\\\z`\n\tfmt.Println(a == b, len(a), len(b), a < b, c == d, len(c), len(d), s+a == s+b)\n\treturn len(a)*1000 + len(b)*100 + len(c)*10 + len(d)\n", true},
	{"raw-then-interpreted", 0, nil, []string{"string"}, "\tb := `u\\tv`\n\ta := \"u\\tv\"\n\treturn a + \"|\" + b\n", false},
	{"len-of-literal", 1, nil, []string{"int"}, "\tfmt.Println(len(\"a\\nb\"), len(\"\\xff\\x00\"), len(\"\\u00e9\"), len(\"\\\\\"), len(\"q\\\"q\"), len(`a\\nb`), len(\"é\"), len(\"\"), len(\"\\t\" + s))\n\treturn len(\"x\\ty\") + len(s)\n", true},
	{"eq", 2, nil, []string{"bool"}, "\treturn s == t\n", false},
	{"neq", 2, nil, []string{"bool"}, "\treturn s != t\n", false},
	{"lt", 2, nil, []string{"bool"}, "\treturn s < t\n", false},
	{"lte", 2, nil, []string{"bool"}, "\treturn s <= t\n", false},
	{"gt", 2, nil, []string{"bool"}, "\treturn s > t\n", false},
	{"gte", 2, nil, []string{"bool"}, "\treturn s >= t\n", false},
	{"concat", 2, nil, []string{"string"}, "\tu := s + t\n\tfmt.Println(s)\n\tfmt.Println(t)\n\treturn u\n", true},
	{"concat-assign", 2, nil, []string{"string"}, "\tu := s\n\tu += t\n\tfmt.Println(s)\n\treturn u\n", true},
	{"concat-len", 2, nil, []string{"int"}, "\treturn len(s + t + \"x\")\n", false},
	{"index-of-concat", 2, []Param{{"i", "int"}}, []string{"byte"}, "\tu := s + t\n\treturn u[i]\n", false},
}

// literal spellings: single-path programs, compared byte for byte with Go's constant value of the same literal
var strLiterals = []string{
	`"plain"`, `""`, `"tab\there"`, `"nl\nx"`, `"quote\"q"`, `"back\\slash"`, `"hex\x41\x7f"`, `"oct\101"`, `"ué世"`, `"U\U0001F600"`,
	`"bell\a\b\f\r\v"`, `"single'quote"`, "`raw\\n\\t`", "`raw \"q\" 'c'`", "`multi\nline`", `"héllo"`, `"\xff\xfe"`,
	`"\u00e9\u4e16"`, `"\377\200\177"`, `"\x80\xc3\x28"`, `"nul\x00mid"`, `"\000"`, "`cr\r\nlf`", "`back\\slash`", `"a\u0301"`, `"\U0010FFFF"`, `"\t\t"`, `"\'"`[:0] + `"q'q"`,
}
var charLiterals = []string{`'\u00e9'`, `'\377'`, `'\x80'`, `'\U0010FFFF'`, `'\b'`, `'\f'`, `'\v'`, `'~'`, `'\x7f'`, `'a'`, `'\''`, `'"'`, `'\\'`, `'\n'`, `'\t'`, `'\x41'`, `'\101'`, `'é'`, `'\U0001F600'`, `'é'`, `'世'`, `'\a'`, `'\r'`, `'0'`, `' '`, `'\000'`, `'\xff'`}

func genC13(tier string) []*Prog {
	maxLen := 3
	if tier == "thorough" {
		maxLen = 5
	}
	var progs []*Prog
	id := 0
	for _, t := range strTemplates {
		var lens [][]int
		switch t.nstr {
		case 0:
			lens = [][]int{{}}
		case 1:
			for l := 0; l <= maxLen; l++ {
				lens = append(lens, []int{l})
			}
		default:
			m := maxLen
			if m > 3 && tier != "thorough" {
				m = 3
			}
			for l := 0; l <= m; l++ {
				for k := 0; k <= m; k++ {
					if l+k <= maxLen+1 {
						lens = append(lens, []int{l, k})
					}
				}
			}
		}
		for _, ls := range lens {
			name := fmt.Sprintf("f%d", id)
			var params []Param
			strlen := map[string]int{}
			for i, l := range ls {
				n := []string{"s", "t"}[i]
				params = append(params, Param{n, "string"})
				strlen[n] = l
			}
			params = append(params, t.extra...)
			var ps []string
			for _, p := range params {
				ps = append(ps, p.Name+" "+p.Type)
			}
			rs := t.results[0]
			imp := ""
			if t.imports {
				imp = "import \"fmt\"\n\n"
			}
			src := fmt.Sprintf("package main\n\n%sfunc %s(%s) %s {\n%s}\n", imp, name, strings.Join(ps, ", "), rs, t.body)
			progs = append(progs, &Prog{ID: fmt.Sprintf("str:%s:%v", t.name, ls), Src: src, Entry: name, Params: params, Results: t.results, StrLen: strlen,
				Family: "C13/" + t.name})
			id++
		}
	}
	for _, lit := range strLiterals {
		name := fmt.Sprintf("f%d", id)
		src := fmt.Sprintf("package main\n\nimport \"fmt\"\n\nfunc %s() string {\n\tx := %s\n\tfmt.Println(len(x), []byte(x))\n\treturn x\n}\n", name, lit)
		progs = append(progs, &Prog{ID: "strlit:" + lit, Src: src, Entry: name, Results: []string{"string"}, Family: "C13/literal/" + lit})
		id++
	}
	for _, lit := range charLiterals {
		name := fmt.Sprintf("f%d", id)
		src := fmt.Sprintf("package main\n\nfunc %s() rune {\n\tx := %s\n\treturn x\n}\n", name, lit)
		progs = append(progs, &Prog{ID: "charlit:" + lit, Src: src, Entry: name, Results: []string{"rune"}, Family: "C13/charliteral/" + lit})
		id++
	}
	return progs
}

func checkC13(tier string, seed int64) int {
	c := newCtx("C13", tier, seed, "translation_validation", nil)
	defer c.Close()
	c.Eng.MaxConcretize = 64
	progs := genC13(tier)
	for _, p := range progs {
		// unconstrained indexes fork over every position; keep them within a window around the string to bound the fork
		if len(p.Params) > 0 {
			p.Assume = func(ex *gosx.Exec, in map[string]*gosx.Term) {
				tt := ex.TT()
				for _, n := range []string{"i", "j"} {
					if t, ok := in[n]; ok {
						// -2 <= idx <= 8 (covers below, inside, at and beyond the end for all generated lengths)
						ex.Assume(tt.Cmp(gosx.OpSLe, tt.BV(uint64(0xfffffffe), 32), t))
						ex.Assume(tt.Cmp(gosx.OpSLe, t, tt.BV(8, 32)))
					}
				}
			}
		}
	}
	agg, st := NewAgg(), &eqStats{}
	c.runEquiv(progs, "z3", agg, st)
	agg.Into(c, "")
	maxLen := 3
	if tier == "thorough" {
		maxLen = 5
	}
	c.Cov("rule", fmt.Sprintf("operation templates (len, index incl. its static type, slice, range with offsets, []byte/string/rune conversions, == != < <= > >=, concatenation with operands re-read afterwards) over strings whose BYTES are symbolic (every length 0..%d; pairs up to total %d), index/slice positions symbolic in [-2,8]; plus %d string-literal and %d character-literal spellings (single-path, decided against Go's value of the same literal)", maxLen, maxLen+1, len(strLiterals), len(charLiterals)))
	c.Cov("paths_compared", st.compared)
	c.Cov("both_sides_fail_paths", st.bothPanic)
	c.Assumption("index and slice operands are assumed within [-2, 8] (all strings are shorter, so below/inside/at/beyond the end are all covered)")
	return c.Finish(false)
}
