package main

import (
	"fmt"
	"math/rand"
	"strings"
)

func init() { checks["C08"] = checkC08 }

// Scope programs: names x, y, z are redeclared at every kind of block boundary; every initialiser is a distinct
// symbolic input, so a read that resolves to the wrong binding yields a different term.

type scopeGen struct {
	rng      *rand.Rand
	sb       strings.Builder
	indent   int
	nin      int
	scopes   []map[string]bool // names declared per open Go scope
	depth    int
	maxIn    int
	kinds    map[string]int
	loopV    int
	useFirst []string
	loopVars map[int]map[string]bool
}

var scopeNames = []string{"x", "y", "z"}

func (g *scopeGen) line(format string, a ...interface{}) {
	g.sb.WriteString(strings.Repeat("\t", g.indent))
	fmt.Fprintf(&g.sb, format, a...)
	g.sb.WriteByte('\n')
}

func (g *scopeGen) in() string {
	s := fmt.Sprintf("i%d", g.nin)
	g.nin++
	return s
}

func (g *scopeGen) visible() []string {
	seen := map[string]bool{}
	var r []string
	for _, n := range scopeNames {
		for _, sc := range g.scopes {
			if sc[n] && !seen[n] {
				seen[n] = true
				r = append(r, n)
			}
		}
	}
	return r
}

// assignable lists visible names whose nearest binding is not a loop counter.
func (g *scopeGen) assignable() []string {
	var r []string
	for _, n := range scopeNames {
		for i := len(g.scopes) - 1; i >= 0; i-- {
			if g.scopes[i][n] {
				if !g.loopVars[i][n] {
					r = append(r, n)
				}
				break
			}
		}
	}
	return r
}

func (g *scopeGen) declaredHere(n string) bool { return g.scopes[len(g.scopes)-1][n] }

func (g *scopeGen) push() { g.scopes = append(g.scopes, map[string]bool{}) }
func (g *scopeGen) pop() {
	delete(g.loopVars, len(g.scopes)-1)
	g.scopes = g.scopes[:len(g.scopes)-1]
}

func (g *scopeGen) printAll(tag int) {
	vs := g.visible()
	if len(vs) == 0 {
		g.line("fmt.Println(%d)", tag)
		return
	}
	g.line("fmt.Println(%d, %s)", tag, strings.Join(vs, ", "))
}

// declare emits a declaration of a random name not yet declared in the current Go scope.
func (g *scopeGen) declare() bool {
	var cand []string
	for _, n := range scopeNames {
		if !g.declaredHere(n) {
			cand = append(cand, n)
		}
	}
	if len(cand) == 0 || g.nin >= g.maxIn {
		return false
	}
	n := cand[g.rng.Intn(len(cand))]
	if len(cand) >= 2 && g.nin+2 < g.maxIn && g.rng.Intn(4) == 0 {
		// a multi-name declaration: every name not yet declared IN THIS BLOCK is new here (also when an enclosing
		// block or the parameter list has one of that name)
		m := cand[g.rng.Intn(len(cand))]
		for m == n {
			m = cand[g.rng.Intn(len(cand))]
		}
		if g.rng.Intn(2) == 0 {
			g.line("%s, %s := %s, %s", n, m, g.in(), g.in())
			g.kinds["multi-:="]++
		} else {
			g.line("var %s, %s = %s, %s", n, m, g.in(), g.in())
			g.kinds["multi-var"]++
		}
		g.scopes[len(g.scopes)-1][n] = true
		g.scopes[len(g.scopes)-1][m] = true
		g.line("_, _ = %s, %s", n, m)
		return true
	}
	switch g.rng.Intn(4) {
	case 0:
		g.line("var %s int = %s", n, g.in())
		g.kinds["var-typed"]++
	case 1:
		g.line("var %s = %s", n, g.in())
		g.kinds["var"]++
	case 2:
		g.line("var %s int", n)
		g.kinds["var-zero"]++
	default:
		g.line("%s := %s", n, g.in())
		g.kinds[":="]++
	}
	g.scopes[len(g.scopes)-1][n] = true
	g.line("_ = %s", n)
	return true
}

func (g *scopeGen) stmt(tag *int) {
	*tag++
	vs := g.visible()
	choice := g.rng.Intn(11)
	if g.depth >= 3 && choice >= 4 {
		choice = g.rng.Intn(4)
	}
	switch choice {
	case 0, 1:
		if !g.declare() {
			g.printAll(*tag)
		}
	case 3:
		// a function literal (not capturing anything) declared in the block: the names of the enclosing function stay
		// what they were
		if g.rng.Intn(3) == 0 {
			v := g.loopV
			g.loopV++
			g.line("h%d := func(q int) int {", v)
			g.line("\tr := q + 1")
			g.line("\treturn r * 2")
			g.line("}")
			g.line("fmt.Println(\"h\", h%d(%s))", v, g.in())
			g.kinds["func-literal"]++
		}
		g.printAll(*tag)
	case 2:
		vs = g.assignable()
		if len(vs) > 0 && g.nin < g.maxIn {
			n := vs[g.rng.Intn(len(vs))]
			switch g.rng.Intn(3) {
			case 0:
				g.line("%s = %s + %s", n, n, g.in())
			case 1:
				g.line("%s++", n)
			default:
				g.line("%s += %s", n, g.in())
			}
			g.kinds["assign"]++
		}
		g.printAll(*tag)
	case 4: // if with init
		if g.nin+2 >= g.maxIn {
			g.printAll(*tag)
			return
		}
		n := scopeNames[g.rng.Intn(3)]
		g.push()
		g.scopes[len(g.scopes)-1][n] = true
		g.line("if %s := %s; %s > %s {", n, g.in(), n, g.in())
		g.kinds["if-init"]++
		g.block(tag, 2)
		if g.rng.Intn(2) == 0 {
			g.line("} else {")
			g.block(tag, 2)
		}
		g.line("}")
		g.pop()
	case 5: // plain if/else
		if g.nin+1 >= g.maxIn {
			g.printAll(*tag)
			return
		}
		g.line("if %s > %s {", g.in(), g.in())
		g.kinds["if"]++
		g.block(tag, 2)
		g.line("} else {")
		g.block(tag, 2)
		g.line("}")
	case 6: // for with init declaring a scope name as loop variable
		n := scopeNames[g.rng.Intn(3)]
		g.push()
		g.scopes[len(g.scopes)-1][n] = true
		g.loopVars[len(g.scopes)-1] = map[string]bool{n: true}
		g.line("for %s := 0; %s < 2; %s++ {", n, n, n)
		g.kinds["for-init"]++
		g.block(tag, 2)
		g.line("}")
		g.pop()
	case 7: // for with a private counter: body variables start fresh on every iteration
		v := g.loopV
		g.loopV++
		if as := g.assignable(); len(as) > 0 && g.rng.Intn(2) == 0 {
			// the post statement updates a scope name of the ENCLOSING block, also when the body redeclares that name
			n := as[g.rng.Intn(len(as))]
			g.line("for c%d := 0; c%d < 2; %s += 10 {", v, v, n)
			g.line("\tc%d++", v)
			g.kinds["for-post-outer-name"]++
		} else {
			g.line("for c%d := 0; c%d < 2; c%d++ {", v, v, v)
			g.kinds["for-body"]++
		}
		g.block(tag, 3)
		g.line("}")
	case 8: // range with key/value names from the scope set
		if g.nin+2 >= g.maxIn {
			g.printAll(*tag)
			return
		}
		k, v := scopeNames[g.rng.Intn(3)], scopeNames[g.rng.Intn(3)]
		// the range expression is evaluated OUTSIDE the scope of the loop variables: it may mention their names
		src1, src2 := g.in(), g.in()
		if vis := g.visible(); len(vis) > 0 && g.rng.Intn(2) == 0 {
			src1 = vis[g.rng.Intn(len(vis))]
			g.kinds["range-expr-mentions-outer-name"]++
		}
		g.push()
		switch {
		case k == v || g.rng.Intn(3) == 0:
			g.scopes[len(g.scopes)-1][v] = true
			g.line("for _, %s := range []int{%s, %s} {", v, src1, src2)
			g.useFirst = []string{v}
			g.kinds["range-value"]++
		case g.rng.Intn(2) == 0:
			g.scopes[len(g.scopes)-1][k] = true
			g.line("for %s := range []int{%s, %s} {", k, src1, src2)
			g.useFirst = []string{k}
			g.kinds["range-key"]++
		default:
			g.scopes[len(g.scopes)-1][k] = true
			g.scopes[len(g.scopes)-1][v] = true
			g.line("for %s, %s := range []int{%s, %s} {", k, v, src1, src2)
			g.useFirst = []string{k, v}
			g.kinds["range-key-value"]++
		}
		g.block(tag, 2)
		g.line("}")
		g.pop()
	case 9: // switch with case bodies
		if g.nin+1 >= g.maxIn {
			g.printAll(*tag)
			return
		}
		sel := g.in()
		g.line("switch {")
		g.line("case %s > 0:", sel)
		g.kinds["case-body"]++
		g.block(tag, 2)
		g.line("default:")
		g.block(tag, 2)
		g.line("}")
	default:
		g.printAll(*tag)
	}
}

func (g *scopeGen) block(tag *int, n int) {
	g.push()
	g.indent++
	g.depth++
	for _, u := range g.useFirst {
		g.line("_ = %s", u)
	}
	g.useFirst = nil
	for i := 0; i < n; i++ {
		g.stmt(tag)
	}
	*tag++
	g.printAll(*tag)
	g.depth--
	g.indent--
	g.pop()
}

func genScopeProg(id int, seed int64) *Prog {
	g := &scopeGen{rng: rand.New(rand.NewSource(seed)), maxIn: 12, kinds: map[string]int{}, indent: 1, loopVars: map[int]map[string]bool{}}
	g.push() // package scope: global x maybe
	global := g.rng.Intn(3) == 0
	paramShadow := g.rng.Intn(3) == 0
	g.push() // function scope (parameters)
	tag := 0
	if paramShadow {
		g.scopes[len(g.scopes)-1]["y"] = true
	}
	if global {
		g.scopes[0]["x"] = true
	}
	// Go: parameters and the function body share one scope for redeclaration purposes
	n := 4 + g.rng.Intn(4)
	g.printAll(0)
	for i := 0; i < n; i++ {
		g.stmt(&tag)
	}
	tag++
	g.printAll(tag)
	name := fmt.Sprintf("f%d", id)
	var ps []string
	var params []Param
	if paramShadow {
		ps = append(ps, "y int")
		params = append(params, Param{"y", "int"})
	}
	for i := 0; i < g.nin; i++ {
		ps = append(ps, fmt.Sprintf("i%d int", i))
		params = append(params, Param{fmt.Sprintf("i%d", i), "int"})
	}
	var sb strings.Builder
	sb.WriteString("package main\n\nimport \"fmt\"\n\n")
	if global {
		sb.WriteString("var x int = 1001\n\n")
		if g.rng.Intn(2) == 0 {
			sb.WriteString("var y = 2002\n\n")
			fmt.Fprintf(&sb, "func g%d() int {\n\treturn x + y\n}\n\n", id)
		}
	}
	fmt.Fprintf(&sb, "func %s(%s) int {\n%s\treturn 0\n}\n", name, strings.Join(ps, ", "), g.sb.String())
	var ks []string
	for k := range g.kinds {
		ks = append(ks, k)
	}
	return &Prog{ID: fmt.Sprintf("scope:%d", seed), Src: sb.String(), Entry: name, Params: params, Results: []string{"int"}, Family: fmt.Sprintf("C08/seed%d", seed), Imports: []string{"fmt"}}
}

func checkC08(tier string, seed int64) int {
	c := newCtx("C08", tier, seed, "translation_validation", nil)
	defer c.Close()
	n := 300
	if tier == "thorough" {
		n = 4000
	}
	var progs []*Prog
	for i := 0; i < n; i++ {
		progs = append(progs, genScopeProg(i, seed*100000+int64(i)))
	}
	agg, st := NewAgg(), &eqStats{}
	c.runEquiv(progs, "z3", agg, st)
	agg.Into(c, "")
	c.Cov("rule", "seeded scope programs: names x,y,z redeclared with :=, var, var T = e at function body, if-init, then/else, for-init, loop body, range key/value, case body (nesting ≤ 3), reads of all visible names before/inside/after each block, assignments and ++ to the nearest binding, optional global x/y and parameter y being shadowed; every initialiser a distinct symbolic int input")
	c.Cov("paths_compared", st.compared)
	c.Assumption("programs are generated from a seeded grammar (VERIF_SEED); loops run exactly 2 iterations")
	return c.Finish(false)
}

func init() {
	checks["C08SRC"] = func(tier string, seed int64) int {
		for i := 0; i < 3; i++ {
			fmt.Println(genScopeProg(i, seed*100000+int64(i)).Src)
		}
		return 0
	}
}
