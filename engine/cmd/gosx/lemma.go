package main

import (
	"fmt"
	"sort"
	"strings"
	"sync"

	"verif/engine/gosx"
)

// runLemmaHarnesses explores every named in-package harness function (shape L), replays each counterexample
// natively and records confirmed violations.  keyOf maps an assertion id to the known-findings key.
type lemmaResult struct {
	Name     string
	Report   *gosx.Report
	Failures []gosx.Failure
}

func (c *Ctx) runLemmaHarnesses(names []string, solver string, agg *Agg) []lemmaResult {
	res := make([]lemmaResult, len(names))
	parallel(len(names), c.Eng.Workers, func(i int) {
		name := names[i]
		rep := c.Eng.ExploreWith(func(ex *gosx.Exec) {
			ex.InitPackage(c.Eng.Pkg)
			fn := ex.Func(name)
			var pan *gosx.TargetPanic
			if c.nonTerminationFails {
				// harnesses whose subject is termination: running past the step / call-depth bound is a failed obligation
				// (confirmed natively by the helper process dying of stack exhaustion or timing out)
				var unwound string
				_, pan, unwound = ex.CallBounded(fn)
				if unwound != "" {
					ex.Assert(ex.TT().Bool(false), name+"/host-panic-or-nontermination", "the harness does not finish: "+unwound, nil)
					return
				}
			} else {
				_, pan = ex.Call(fn)
			}
			if pan != nil {
				// an escaping panic in a lemma harness is itself a failed obligation
				ex.Assert(ex.TT().Bool(false), name+"/escaping-panic", ex.PanicText(pan), nil)
			}
		}, solver, 1)
		agg.Add(rep)
		if i%17 == 0 || len(rep.Failures) > 0 {
			c.Sample(map[string]interface{}{"harness": name, "paths": rep.Paths, "assertions_discharged": rep.Asserts, "failures": len(rep.Failures), "paths_by_end": rep.ByEnd})
		}
		res[i] = lemmaResult{Name: name, Report: rep, Failures: rep.Failures}
	})
	return res
}

// confirmLemmaFailures replays failures natively; confirmed ones become violations.
func (c *Ctx) confirmLemmaFailures(results []lemmaResult, what func(id string) string) {
	var mu sync.Mutex
	seen := map[string]bool{}
	type job struct {
		h string
		f gosx.Failure
	}
	var jobs []job
	for _, r := range results {
		for _, f := range r.Failures {
			k := r.Name + "|" + f.ID
			if seen[k] {
				continue
			}
			seen[k] = true
			jobs = append(jobs, job{r.Name, f})
		}
	}
	parallel(len(jobs), 8, func(i int) {
		j := jobs[i]
		var resp struct {
			Failed     []string
			HostPanic  string
			Infeasible bool
			Err        string
		}
		req := map[string]interface{}{"Op": "harness", "Harness": j.h, "Vec": j.f.Model}
		out, err := c.Native.RunOnce(req, &resp, 60)
		// a counterexample that depends on Go's (random) map iteration order is replayed until the native run takes
		// that order too (bounded)
		orderDependent := false
		for k := range j.f.Model {
			if strings.HasPrefix(k, "maporder_") || strings.HasPrefix(k, "perm_") {
				orderDependent = true
			}
		}
		for try := 0; orderDependent && try < 40 && err == nil && resp.HostPanic == "" && !containsString(resp.Failed, j.f.ID); try++ {
			resp.Failed = nil
			out, err = c.Native.RunOnce(req, &resp, 60)
		}
		mu.Lock()
		c.replays++
		mu.Unlock()
		confirmed := false
		if err != nil {
			// the native process itself died: for "escaping-panic" obligations that is the confirmation
			confirmed = strings.Contains(j.f.ID, "escaping-panic") || strings.Contains(j.f.ID, "host-panic")
			resp.HostPanic = strings.TrimSpace(out)
		} else if resp.HostPanic != "" {
			confirmed = strings.Contains(j.f.ID, "escaping-panic") || strings.Contains(j.f.ID, "host-panic")
		} else {
			for _, id := range resp.Failed {
				if id == j.f.ID {
					confirmed = true
				}
			}
		}
		if !confirmed {
			mu.Lock()
			c.mismatch++
			mu.Unlock()
			fmt.Printf("ENGINE-MISMATCH harness=%s assertion=%s model=%v native=%+v\n", j.h, j.f.ID, j.f.Model, resp)
			return
		}
		c.AddViolation(Violation{Key: j.f.ID, What: what(j.f.ID) + fmt.Sprintf(" (witness %s)", modelString(j.f.Model)),
			Replay: map[string]interface{}{"kind": "harness", "harness": j.h, "vec": j.f.Model, "assertion": j.f.ID, "msg": j.f.Msg}})
	})
}

func containsString(l []string, s string) bool {
	for _, x := range l {
		if x == s {
			return true
		}
	}
	return false
}

func modelString(m gosx.Model) string {
	var ks []string
	for k := range m {
		ks = append(ks, k)
	}
	sort.Strings(ks)
	var p []string
	for _, k := range ks {
		p = append(p, fmt.Sprintf("%s=%#x", k, m[k]))
	}
	return strings.Join(p, " ")
}
