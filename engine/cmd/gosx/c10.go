package main

import (
	"fmt"
	"math/rand"
	"strings"

	"verif/engine/gosx"
)

func init() { checks["C10"] = checkC10 }

// script-level map programs: histories on one map with symbolic keys and values; iteration results are compared
// through order-independent aggregates (count, sum of keys, sum of values, sum of key*value).
func genMapProg(id int, seed int64, nsteps int) *Prog {
	rng := rand.New(rand.NewSource(seed))
	kt := []string{"int", "string", "byte", "bool", "float64"}[rng.Intn(5)]
	var params []Param
	nin := 0
	in := func(t string) string {
		n := fmt.Sprintf("i%d", nin)
		nin++
		params = append(params, Param{n, t})
		return n
	}
	// a small pool of key expressions so that keys collide
	var keys []string
	switch kt {
	case "string":
		keys = []string{`"a"`, `"b"`, `"c"`}
	case "bool":
		keys = []string{"true", "false", in("bool")}
	default:
		keys = []string{in(kt), in(kt), "1", "2"}
	}
	key := func() string { return keys[rng.Intn(len(keys))] }
	var b strings.Builder
	line := func(f string, a ...interface{}) { b.WriteString("\t" + fmt.Sprintf(f, a...) + "\n") }
	switch rng.Intn(4) {
	case 3:
		// several entries whose (non-constant) keys may be equal at run time: one entry, the later value
		line("m := map[%s]int{%s: %s, %s: %s, %s: %s}", kt, keys[0], in("int"), keys[1%len(keys)], in("int"), keys[len(keys)-1], in("int"))
	case 0:
		line("m := map[%s]int{}", kt)
	case 1:
		line("m := make(map[%s]int)", kt)
	default:
		line("m := map[%s]int{%s: %s}", kt, keys[len(keys)-1], in("int"))
	}
	agg := func(tag int) {
		line("n%d, sv%d := 0, 0", tag, tag)
		line("for k, v := range m {")
		line("\tn%d++", tag)
		line("\tsv%d += v", tag)
		line("\tif x, ok := m[k]; !ok || x != v {")
		line("\t\tfmt.Println(\"inconsistent\")")
		line("\t}")
		line("}")
		line("fmt.Println(%d, len(m), n%d, sv%d)", tag, tag, tag)
	}
	for s := 0; s < nsteps; s++ {
		switch rng.Intn(7) {
		case 0, 1:
			line("m[%s] = %s", key(), in("int"))
		case 2:
			line("delete(m, %s)", key())
		case 3:
			line("fmt.Println(\"get\", m[%s])", key())
		case 4:
			line("if v, ok := m[%s]; ok {", key())
			line("\tfmt.Println(\"has\", v)")
			line("} else {")
			line("\tfmt.Println(\"no\", v)")
			line("}")
		case 5:
			line("m[%s] += %s", key(), in("int"))
		case 6:
			// delete the current key during the loop: every key is still visited exactly once
			line("c%d := 0", s)
			line("for k := range m {")
			line("\tdelete(m, k)")
			line("\tc%d++", s)
			line("}")
			line("fmt.Println(\"cleared\", c%d, len(m))", s)
		}
		agg(s)
	}
	name := fmt.Sprintf("f%d", id)
	var ps []string
	for _, p := range params {
		ps = append(ps, p.Name+" "+p.Type)
	}
	src := fmt.Sprintf("package main\n\nimport \"fmt\"\n\nfunc %s(%s) int {\n%s\treturn len(m)\n}\n", name, strings.Join(ps, ", "), b.String())
	return &Prog{ID: fmt.Sprintf("map:%d", seed), Src: src, Entry: name, Params: params, Results: []string{"int"}, Family: fmt.Sprintf("C10/E/%s/seed%d", kt, seed),
		Assume: func(ex *gosx.Exec, in map[string]*gosx.Term) {
			tt := ex.TT()
			for _, p := range params {
				if p.Type == "float64" {
					ex.Assume(tt.Not(tt.FPred(gosx.OpFIsNaN, in[p.Name])))
				}
			}
		}}
}

// zeroValueProgs: a missing key gives the zero value OF THE ELEMENT TYPE (also through a nil map), for every key
// type × element type; the uses are sensitive to the element's static type.
func zeroValueProgs(base int) []*Prog {
	var progs []*Prog
	id := base
	for _, kt := range []string{"int", "float64", "byte", "bool", "string"} {
		for _, vt := range []string{"int", "string", "float64", "byte", "bool", "[]int", "int8"} {
			var b strings.Builder
			line := func(f string, a ...interface{}) { b.WriteString("\t" + fmt.Sprintf(f, a...) + "\n") }
			line("m := map[%s]%s{}", kt, vt)
			line("var nm map[%s]%s", kt, vt)
			switch vt {
			case "[]int":
				line("v := m[k]")
				line("w, ok := m[k]")
				line("fmt.Println(len(v), v == nil, len(w), ok, len(nm[k]), len(m), len(nm))")
				line("m[k] = append(m[k], 1)")
				line("fmt.Println(len(m[k]), m[k][0], len(m))")
			case "string":
				line("v := m[k]")
				line("w, ok := m[k]")
				line("fmt.Println(v, len(v), w == \"\", ok, nm[k] == \"\", len(m))")
				line("m[k] += \"x\"")
				line("m[k] += nm[k]")
				line("fmt.Println(m[k], len(m[k]), len(m))")
			case "bool":
				line("v := m[k]")
				line("w, ok := m[k]")
				line("fmt.Println(v, w, ok, nm[k], !m[k], len(m))")
				line("m[k] = !m[k]")
				line("fmt.Println(m[k], len(m))")
			default:
				line("v := m[k]")
				line("w, ok := m[k]")
				line("fmt.Println(v, w, ok, nm[k], len(m))")
				line("m[k] += 3")
				line("m[k] /= 2")
				line("m[k] -= 2")
				line("fmt.Println(m[k])")
				line("m[k] = 7") // an untyped constant stored over an existing entry takes the element type
				line("m[k] = m[k] / 2")
				line("m[k] = 200")
				line("m[k] += 100")
				line("x := m[k] + nm[k]")
				line("fmt.Println(m[k], x, x*x*x*x*x, len(m))")
			}
			name := fmt.Sprintf("f%d", id)
			src := fmt.Sprintf("package main\n\nimport \"fmt\"\n\nfunc %s(k %s) int {\n%s\treturn len(m)\n}\n", name, kt, b.String())
			p := &Prog{ID: fmt.Sprintf("zero:%s:%s", kt, vt), Src: src, Entry: name, Params: []Param{{"k", kt}}, Results: []string{"int"}, Family: fmt.Sprintf("C10/E/zero/%s/%s", kt, vt)}
			if kt == "float64" {
				p.Assume = func(ex *gosx.Exec, in map[string]*gosx.Term) {
					ex.Assume(ex.TT().Not(ex.TT().FPred(gosx.OpFIsNaN, in["k"])))
				}
			}
			if kt == "string" {
				p.StrLen = map[string]int{"k": 1}
			}
			progs = append(progs, p)
			id++
		}
	}
	// element type any: a key whose value is nil (or a zero) is present
	for _, kt := range []string{"string", "int"} {
		key := map[string]string{"string": "\"k\"", "int": "7"}[kt]
		var b strings.Builder
		line := func(f string, a ...interface{}) { b.WriteString("\t" + fmt.Sprintf(f, a...) + "\n") }
		line("m := map[%s]any{}", kt)
		line("m[%s] = nil", key)
		line("v, ok := m[%s]", key)
		line("fmt.Println(v == nil, ok, len(m))")
		line("m[k] = 0")
		line("w, ok2 := m[k]")
		line("fmt.Println(w == nil, ok2, len(m))")
		line("m[k] = nil")
		line("_, ok3 := m[k]")
		line("n := 0")
		line("for range m {")
		line("\tn++")
		line("}")
		line("delete(m, %s)", key)
		line("_, ok4 := m[%s]", key)
		line("fmt.Println(ok3, n, ok4, len(m))")
		name := fmt.Sprintf("f%d", id)
		src := fmt.Sprintf("package main\n\nimport \"fmt\"\n\nfunc %s(k %s) int {\n%s\treturn len(m)\n}\n", name, kt, b.String())
		p := &Prog{ID: "anymap:" + kt, Src: src, Entry: name, Params: []Param{{"k", kt}}, Results: []string{"int"}, Family: "C10/E/any/" + kt}
		if kt == "string" {
			p.StrLen = map[string]int{"k": 1}
		}
		progs = append(progs, p)
		id++
	}
	return progs
}

func checkC10(tier string, seed int64) int {
	c := newCtx("C10", tier, seed, "model_checking", nil)
	defer c.Close()
	steps, nprogs, psteps := 4, 150, 5
	if tier == "thorough" {
		steps, nprogs, psteps = 6, 1500, 8
	}
	subsetN := 8
	if tier == "thorough" {
		subsetN = 11
	}
	c.Eng.Cfg = map[string]int{"c10_steps": steps, "c10_subset_n": subsetN}
	c.Eng.MaxPaths = 300000
	// Go leaves map iteration order unspecified: maps.Keys (used when the key list is compacted) may return any permutation
	c.Eng.MapOrderHook = gosx.PermuteInMapsKeys(4)
	names := []string{"verifH_C10_int", "verifH_C10_string", "verifH_C10_float", "verifH_C10_bool_uint8", "verifH_C10_nil", "verifH_C10_range_mutation", "verifH_C10_range_delete_subset"}
	agg := NewAgg()
	var res []lemmaResult
	for _, n := range names {
		rep := c.Eng.ExploreWith(func(ex *gosx.Exec) {
			ex.InitPackage(c.Eng.Pkg)
			_, pan := ex.Call(ex.Func(n))
			if pan != nil {
				ex.Assert(ex.TT().Bool(false), n+"/escaping-panic", ex.PanicText(pan), nil)
			}
		}, "z3", c.Eng.Workers)
		agg.Add(rep)
		c.Sample(map[string]interface{}{"harness": n, "paths": rep.Paths, "paths_by_end": rep.ByEnd, "assertions_discharged": rep.Asserts, "failures": len(rep.Failures), "wall_s": rep.Wall.Seconds()})
		res = append(res, lemmaResult{Name: n, Report: rep, Failures: rep.Failures})
	}
	c.confirmLemmaFailures(res, func(id string) string { return "map obligation " + strings.TrimPrefix(id, "C10/L/") + " fails" })
	agg.Into(c, "lemmas_")
	var progs []*Prog
	for i := 0; i < nprogs; i++ {
		progs = append(progs, genMapProg(i, seed*100000+int64(i), 2+i%(psteps-1)))
	}
	progs = append(progs, zeroValueProgs(nprogs)...)
	eagg, st := NewAgg(), &eqStats{}
	c.runEquiv(progs, "z3", eagg, st)
	eagg.Into(c, "scripts_")
	c.Cov("scripts_paths_compared", st.compared)
	c.Cov("bounds", map[string]int{"history_steps": steps, "script_programs": nprogs, "script_steps": psteps})
	c.Assumption("host-API histories: operation kind and key symbolic per step (int32/float64 keys unconstrained except NaN; bool; strings from {a,b,c}); the harness keeps a Go map as the model")
	c.Assumption(fmt.Sprintf("range-delete-subset harness: %d keys (int32- and string-keyed), an arbitrary subset (symbolic mask, all 2^%d) deleted after 0..3 visits, optional insert of a fresh key", subsetN, subsetN))
	c.Assumption("maps.Keys (compaction path) returns every permutation for ≤ 4 keys, insertion order above")
	c.Assumption("zero-value programs: 5 key types × 7 element types (int, string, float64, byte, bool, []int, int8): missing-key reads (plain, comma-ok, through a nil map) and compound assignment on a missing key, used so that the element's static type shows")
	c.Assumption("script programs compare iteration through order-independent aggregates; the only mutation during range in scripts is deleting the current key; other mutation-during-range behaviour is checked by the host-API harness against the spec's guarantees")
	return c.Finish(false)
}
