//go:build verif

package goatlang

// C14: struct references render as &{Field:value ...} in declaration order; rendering terminates on cyclic graphs.

func verifC14Structs() {
	a, f, p := verifInt32("a"), verifFloat64("f"), verifBool("p")
	_ = f
	vm := New(WithStdout(&verifRecorder{}))
	src := "type P struct {\n\tzeta int\n\talpha string\n\tmid bool\n\tb byte\n}\nfunc mk(x int, q bool) *P { return &P{zeta: x, alpha: \"s t\", mid: q, b: 200} }\nfunc show(x int, q bool) string { return fmt.Sprint(mk(x, q)) }\n"
	if _, err := vm.Eval(verifMkFS(nil), "main.go", "import \"fmt\"\n"+src); err != nil {
		verifAssert(false, "C14/structs/eval")
		return
	}
	rets, err := vm.Call("main.show", 1, Int32(a), Bool(p))
	verifAssert(err == nil && len(rets) == 1, "C14/structs/outcome")
	if err == nil && len(rets) == 1 {
		want := "&{zeta:" + Int32(a).String() + " alpha:s t mid:" + Bool(p).String() + " b:200}"
		verifAssert(rets[0].String() == want, "C14/structs/declaration-order-and-values")
	}
	// host side: Value.String of the same instance
	inst, err := vm.Call("main.mk", 1, Int32(a), Bool(p))
	if err == nil && len(inst) == 1 {
		want := "&{zeta:" + Int32(a).String() + " alpha:s t mid:" + Bool(p).String() + " b:200}"
		verifAssert(inst[0].String() == want, "C14/structs/host-String")
	}
}

func verifC14Cycles() {
	vm := New(WithStdout(&verifRecorder{}))
	src := `type N struct {
	v int
	next *N
	kids []*N
	idx map[string]*N
}
func self() *N { n := &N{v: 1}; n.next = n; return n }
func pair() *N { a := &N{v: 1}; b := &N{v: 2}; a.next = b; b.next = a; return a }
func viaSlice() *N { a := &N{v: 3}; a.kids = append(a.kids, a); a.kids = append(a.kids, a); return a }
func viaMap() *N { a := &N{v: 4}; a.idx = map[string]*N{}; a.idx["me"] = a; return a }
func three() *N { a := &N{v: 1}; b := &N{v: 2}; c := &N{v: 3}; a.next = b; b.next = c; c.next = a; c.kids = append(c.kids, a); b.idx = map[string]*N{}; b.idx["c"] = c; return a }
func show(n *N) string { return fmt.Sprint(n) }
func showln(n *N) int { fmt.Println(n, n.kids, n.idx); return 0 }
`
	if _, err := vm.Eval(verifMkFS(nil), "main.go", "import \"fmt\"\n"+src); err != nil {
		verifAssert(false, "C14/cycles/eval")
		return
	}
	for _, mk := range []string{"main.self", "main.pair", "main.viaSlice", "main.viaMap", "main.three"} {
		rets, err := vm.Call(mk, 1)
		verifAssert(err == nil && len(rets) == 1, "C14/cycles/build")
		if err != nil || len(rets) != 1 {
			continue
		}
		s := rets[0].String() // host-side rendering must return
		verifAssert(len(s) > 0, "C14/cycles/host-String-terminates")
		out, err := vm.Call("main.show", 1, rets[0])
		verifAssert(err == nil && len(out) == 1 && len(out[0].String()) > 0, "C14/cycles/script-Sprint-terminates")
		_, err = vm.Call("main.showln", 1, rets[0])
		verifAssert(err == nil, "C14/cycles/script-Println-terminates")
	}
}

// verifC14AnyCycles: cycles that run through containers of `any` only (no struct in the loop), built by scripts; every
// way of rendering them must return.
func verifC14AnyCycles() {
	vm := New(WithStdout(&verifRecorder{}))
	src := `func sliceSelf() []any { s := []any{1, "a"}; s[0] = s; return s }
func sliceTwo() []any { a := []any{1}; b := []any{a, 2}; a[0] = b; return a }
func sliceAppend() []any { s := []any{true}; s = append(s, 1.5); s[1] = s; return s }
func mapSelf() map[string]any { m := map[string]any{"k": 1}; m["k"] = m; return m }
func mapSlice() []any { m := map[string]any{"k": 1}; s := []any{m}; m["k"] = s; return s }
func sliceThree() []any { a := []any{0}; b := []any{a}; c := []any{b}; a[0] = c; return b }
func show(v any) string { return fmt.Sprint(v) }
func showln(v any) int { fmt.Println(v); println(v); return 0 }
`
	if _, err := vm.Eval(verifMkFS(nil), "main.go", "import \"fmt\"\n"+src); err != nil {
		verifAssert(false, "C14/any-cycles/eval")
		return
	}
	mks := []string{"main.sliceSelf", "main.sliceTwo", "main.sliceAppend", "main.mapSelf", "main.mapSlice", "main.sliceThree"}
	mk := mks[verifChoice("graph", len(mks))]
	rets, err := vm.Call(mk, 1)
	verifAssert(err == nil && len(rets) == 1, "C14/any-cycles/build")
	if err != nil || len(rets) != 1 {
		return
	}
	s := rets[0].String() // host-side rendering must return
	verifAssert(len(s) > 0, "C14/any-cycles/host-String-terminates")
	out, err := vm.Call("main.show", 1, rets[0])
	verifAssert(err == nil && len(out) == 1 && len(out[0].String()) > 0, "C14/any-cycles/script-Sprint-terminates")
	_, err = vm.Call("main.showln", 1, rets[0])
	verifAssert(err == nil, "C14/any-cycles/script-Println-terminates")
}

func init() {
	verifHarnesses["verifC14AnyCycles"] = verifC14AnyCycles
	verifHarnesses["verifC14Structs"] = verifC14Structs
	verifHarnesses["verifC14Cycles"] = verifC14Cycles
}
