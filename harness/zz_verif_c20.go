//go:build verif

package goatlang

// C20 / C03 (shape L): the packed position of an instruction (file, function, line, column in one word) must give back
// the file and function it was built from for EVERY line and column the tokenizer can hand over (text/scanner counts
// in int), must never make info/String fail, and gives back line and column exactly within the stated bound.

func verifH_C20_pos() {
	g := newGlobals()
	// some globals before and between the names, so that the indexes are not trivial
	for i := 0; i < 5; i++ {
		g.Index(verifName("filler", i))
	}
	files := []string{"main.go", "lib/util.go", "a.go"}
	funcs := []string{"", "main.f", "main.T.method", "lib.g"}
	file := files[verifChoice("file", len(files))]
	fn := funcs[verifChoice("func", len(funcs))]
	line := int(verifInt32("line"))
	col := int(verifInt32("col"))
	verifAssume(verifAnd(line >= 1, col >= 1))
	p := newPos(g, file, fn, line, col)
	var f2, fn2 string
	var l2, c2 int
	ok := !verifCatch(func() { f2, fn2, l2, c2 = p.info(g) })
	verifAssert(ok, "C20/L/pos/info-does-not-panic")
	if !ok {
		return
	}
	verifAssert(f2 == file, "C20/L/pos/file-name")
	verifAssert(fn2 == fn, "C20/L/pos/function-name")
	bound := verifCfg("c20_pos_exact_below", 65535)
	if line < bound {
		verifAssert(l2 == line, "C20/L/pos/line")
	}
	if col < bound {
		verifAssert(c2 == col, "C20/L/pos/column")
	}
	if line < bound && col < bound {
		// distinct positions stay distinct (the compiler uses a position's text as the name of hidden locals)
		line3 := int(verifInt32("line3"))
		col3 := int(verifInt32("col3"))
		verifAssume(verifAnd(verifAnd(line3 >= 1, col3 >= 1), verifAnd(line3 < bound, col3 < bound)))
		q := newPos(g, file, fn, line3, col3)
		if line3 != line || col3 != col {
			verifAssert(p != q, "C20/L/pos/injective")
		}
	}
}

func init() {
	verifHarnesses["verifH_C20_pos"] = verifH_C20_pos
}
