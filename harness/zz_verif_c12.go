//go:build verif

package goatlang

import "fmt"

// C12 (shape L): the robin-hood table behind struct fields and methods.
//
// Inductive step: from an ARBITRARY table of size 16 (every distance, key and value cell symbolic) that satisfies the
// representation invariant, one Set / Assign / Get / Delete with an arbitrary key re-establishes the invariant and
// changes the abstract contents exactly as a map would.  One step covers histories of any length.


func verifName(p string, i int) string { return fmt.Sprintf("%s%d", p, i) }

// verifTableInv is the representation invariant I1–I5, written without short-circuit operators.
func verifTableInv(m *intMap) bool {
	size := len(m.pairs)
	ok := size == m.size
	ok = verifAnd(ok, m.mask == m.size-1)
	ok = verifAnd(ok, m.max == m.size*3/4)
	ok = verifAnd(ok, m.min == m.size/4)
	cnt := 0
	for i := 0; i < size; i++ {
		p := m.pairs[i]
		occ := p.distance > 0
		cnt += verifIteInt(occ, 1, 0)
		ok = verifAnd(ok, verifAnd(p.distance >= 0, p.distance <= size))
		// I3: an occupied slot holds a key whose home is distance-1 slots before it
		ok = verifAnd(ok, verifImplies(occ, ((p.key&m.mask)+p.distance-1)&m.mask == i))
		// I4: no gap between home and slot, distances grow by at most one per slot
		q := m.pairs[(i+size-1)&m.mask]
		ok = verifAnd(ok, verifImplies(p.distance > 1, q.distance >= p.distance-1))
		// I5: keys are pairwise distinct
		for j := i + 1; j < size; j++ {
			r := m.pairs[j]
			ok = verifAnd(ok, verifImplies(verifAnd(occ, r.distance > 0), p.key != r.key))
		}
	}
	ok = verifAnd(ok, cnt == m.total)
	ok = verifAnd(ok, m.total <= m.max)
	return ok
}

// verifArbTable returns an arbitrary size-16 table satisfying the invariant with at most verifC12MaxTotal entries.
func verifArbTable() intMap {
	m := intMap{}
	m.init(intMapMin, 0)
	total := 0
	for i := range m.pairs {
		d, k, v := verifInt(verifName("d", i)), verifInt(verifName("k", i)), verifInt32(verifName("v", i))
		m.pairs[i] = intMapPair{distance: d, key: k, value: Int32(v)}
		total += verifIteInt(d > 0, 1, 0)
	}
	m.total = total
	verifAssume(verifTableInv(&m))
	verifAssume(total <= verifCfg("c12_maxtotal", 6))
	return m
}

// verifCount counts slots holding (key, num) — or just key when anyVal — without forking.
func verifCount(m *intMap, key int, num float64, anyVal bool) int {
	n := 0
	for i := range m.pairs {
		p := m.pairs[i]
		hit := verifAnd(p.distance > 0, p.key == key)
		if !anyVal {
			hit = verifAnd(hit, verifAnd(p.value.num == num, p.value.t == TypeInt32))
		}
		n += verifIteInt(hit, 1, 0)
	}
	return n
}

func verifCopyTable(m *intMap) intMap {
	c := *m
	c.pairs = make([]intMapPair, len(m.pairs))
	copy(c.pairs, m.pairs)
	return c
}

// verifSameExcept: every entry of pre whose key differs from key is in post with the same value, and vice versa.
func verifSameExcept(pre, post *intMap, key int) bool {
	ok := true
	for i := range pre.pairs {
		p := pre.pairs[i]
		ok = verifAnd(ok, verifImplies(verifAnd(p.distance > 0, p.key != key), verifCount(post, p.key, p.value.num, false) == 1))
	}
	for i := range post.pairs {
		p := post.pairs[i]
		ok = verifAnd(ok, verifImplies(verifAnd(p.distance > 0, p.key != key), verifCount(pre, p.key, p.value.num, false) == 1))
	}
	return ok
}

func verifH_C12_set() {
	m := verifArbTable()
	pre := verifCopyTable(&m)
	k, v := verifInt("key"), verifInt32("val")
	had := verifCount(&pre, k, 0, true)
	m.Set(k, Int32(v))
	verifAssert(verifTableInv(&m), "C12/L/set/invariant")
	verifAssert(verifCount(&m, k, float64(v), false) == 1, "C12/L/set/stored")
	verifAssert(verifSameExcept(&pre, &m, k), "C12/L/set/others-untouched")
	verifAssert(m.total == pre.total+1-had, "C12/L/set/len")
}

func verifH_C12_get() {
	m := verifArbTable()
	pre := verifCopyTable(&m)
	k := verifInt("key")
	got, ok := m.Get(k)
	had := verifCount(&pre, k, 0, true)
	verifAssert(ok == (had == 1), "C12/L/get/found")
	if ok {
		verifAssert(verifCount(&pre, k, got.num, false) == 1, "C12/L/get/value")
	} else {
		verifAssert(got.t == TypeNil, "C12/L/get/zero")
	}
	verifAssert(verifAnd(verifSameExcept(&pre, &m, k+1), verifSameExcept(&pre, &m, k)), "C12/L/get/readonly")
}

func verifH_C12_assign() {
	m := verifArbTable()
	pre := verifCopyTable(&m)
	k, v := verifInt("key"), verifInt32("val")
	had := verifCount(&pre, k, 0, true)
	m.Assign(k, newUntypedInt(int(v)))
	verifAssert(verifTableInv(&m), "C12/L/assign/invariant")
	verifAssert(verifSameExcept(&pre, &m, k), "C12/L/assign/others-untouched")
	verifAssert(m.total == pre.total, "C12/L/assign/len")
	// an existing field takes the value converted to the field's type (here: untyped constant → int32); a missing key is ignored
	verifAssert(verifImplies(had == 1, verifCount(&m, k, float64(v), false) == 1), "C12/L/assign/stored-typed")
	verifAssert(verifImplies(had == 0, verifCount(&m, k, 0, true) == 0), "C12/L/assign/missing-ignored")
}

// verifH_C12_assign_typed: as verifH_C12_assign, but every entry of the arbitrary table has its OWN declared type
// (int32 or float64, symbolic per slot): the stored value takes the type of the entry whose key matches, wherever
// probing found it, and no other slot changes.
func verifH_C12_assign_typed() {
	m := intMap{}
	m.init(intMapMin, 0)
	total := 0
	for i := range m.pairs {
		d, k, v := verifInt(verifName("d", i)), verifInt(verifName("k", i)), verifInt32(verifName("v", i))
		t := verifIteInt(verifBool(verifName("isfloat", i)), int(TypeFloat64), int(TypeInt32))
		m.pairs[i] = intMapPair{distance: d, key: k, value: Value{t: Type(t), num: float64(v)}}
		total += verifIteInt(d > 0, 1, 0)
	}
	m.total = total
	verifAssume(verifTableInv(&m))
	verifAssume(total <= verifCfg("c12_maxtotal", 6))
	pre := verifCopyTable(&m)
	k, v := verifInt("key"), verifInt32("val")
	m.Assign(k, newUntypedInt(int(v)))
	verifAssert(verifTableInv(&m), "C12/L/assign-typed/invariant")
	for i := range m.pairs {
		a, b := pre.pairs[i], m.pairs[i]
		hit := verifAnd(a.distance > 0, a.key == k)
		verifAssert(verifAnd(a.distance == b.distance, a.key == b.key), "C12/L/assign-typed/layout-unchanged")
		verifAssert(int(a.value.t) == int(b.value.t), "C12/L/assign-typed/field-keeps-its-declared-type")
		verifAssert(verifImplies(hit, b.value.num == float64(v)), "C12/L/assign-typed/stored")
		verifAssert(verifImplies(verifNot(hit), b.value.num == a.value.num), "C12/L/assign-typed/others-untouched")
	}
}

func verifH_C12_delete() {
	m := verifArbTable()
	pre := verifCopyTable(&m)
	k := verifInt("key")
	had := verifCount(&pre, k, 0, true)
	m.Delete(k)
	verifAssert(verifTableInv(&m), "C12/L/delete/invariant")
	verifAssert(verifCount(&m, k, 0, true) == 0, "C12/L/delete/gone")
	verifAssert(verifSameExcept(&pre, &m, k), "C12/L/delete/others-untouched")
	verifAssert(m.total == pre.total-had, "C12/L/delete/len")
}

func verifH_C12_copy() {
	m := verifArbTable()
	c := m.Copy()
	k, v := verifInt("key"), verifInt32("val")
	pre := verifCopyTable(&m)
	c.Set(k, Int32(v))
	// the source is untouched by a write to the copy, slot by slot
	same := true
	for i := range m.pairs {
		same = verifAnd(same, verifAnd(m.pairs[i].distance == pre.pairs[i].distance, verifAnd(m.pairs[i].key == pre.pairs[i].key, m.pairs[i].value.num == pre.pairs[i].value.num)))
	}
	verifAssert(same, "C12/L/copy/independent")
	verifAssert(m.total == pre.total, "C12/L/copy/len")
}

// Histories from the empty table across the growth and shrink thresholds: concrete key counts, symbolic values and
// a symbolic probe key; the table must agree with a Go map after every phase.
func verifH_C12_thresholds() {
	n := 13 + verifChoice("extra", 3)*12 // 13, 25, 37 entries: crosses 16→32 (and 32→64)
	stride := 1 + verifChoice("stride", 3)*15
	m := newIntMap(0)
	ref := map[int]int32{}
	for i := 0; i < n; i++ {
		v := verifInt32(verifName("v", i%4))
		m.Set(i*stride, Int32(v+int32(i)))
		ref[i*stride] = v + int32(i)
	}
	verifAssert(verifTableInv(&m), "C12/L/thresholds/grow-invariant")
	verifAssert(m.Len() == len(ref), "C12/L/thresholds/grow-len")
	for k, want := range ref {
		got, ok := m.Get(k)
		verifAssert(ok && got.num == float64(want), "C12/L/thresholds/grow-get")
	}
	// delete most entries: shrinks below min
	for i := 0; i < n-2; i++ {
		m.Delete(i * stride)
		delete(ref, i*stride)
	}
	verifAssert(verifTableInv(&m), "C12/L/thresholds/shrink-invariant")
	verifAssert(m.Len() == len(ref), "C12/L/thresholds/shrink-len")
	for k, want := range ref {
		got, ok := m.Get(k)
		verifAssert(ok && got.num == float64(want), "C12/L/thresholds/shrink-get")
	}
	_, ok := m.Get(0)
	verifAssert(!ok, "C12/L/thresholds/deleted-gone")
}

// Bounded histories from the empty table with symbolic colliding keys (all collision patterns of 5 keys over 2 homes).
func verifH_C12_history() {
	keys := []int{0, 16, 32, 1, 17}
	m := newIntMap(0)
	ref := map[int]int32{}
	steps := verifCfg("c12_histsteps", 3)
	for s := 0; s < steps; s++ {
		k := keys[verifChoice(verifName("k", s), len(keys))]
		switch verifChoice(verifName("op", s), 3) {
		case 0:
			v := verifInt32(verifName("v", s))
			m.Set(k, Int32(v))
			ref[k] = v
		case 1:
			m.Delete(k)
			delete(ref, k)
		default:
			got, ok := m.Get(k)
			want, wok := ref[k]
			verifAssert(ok == wok, "C12/L/history/get-found")
			if ok && wok {
				verifAssert(got.num == float64(want), "C12/L/history/get-value")
			}
		}
		verifAssert(m.Len() == len(ref), "C12/L/history/len")
	}
	verifAssert(verifTableInv(&m), "C12/L/history/invariant")
	for _, k := range keys {
		got, ok := m.Get(k)
		want, wok := ref[k]
		verifAssert(ok == wok && (!ok || got.num == float64(want)), "C12/L/history/final")
	}
}


func init() {
	verifHarnesses["verifH_C12_set"] = verifH_C12_set
	verifHarnesses["verifH_C12_get"] = verifH_C12_get
	verifHarnesses["verifH_C12_assign"] = verifH_C12_assign
	verifHarnesses["verifH_C12_assign_typed"] = verifH_C12_assign_typed
	verifHarnesses["verifH_C12_delete"] = verifH_C12_delete
	verifHarnesses["verifH_C12_copy"] = verifH_C12_copy
	verifHarnesses["verifH_C12_thresholds"] = verifH_C12_thresholds
	verifHarnesses["verifH_C12_history"] = verifH_C12_history
}
