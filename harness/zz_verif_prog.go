//go:build verif

package goatlang

import (
	"fmt"
	"io/fs"
	"math"
	"strings"
)

// Generic program runner used by the equivalence (shape E) and monitor (shape M) checks.  The engine calls
// verifEvalCall with symbolic arguments; the native helper calls it with the concrete counterexample.

type verifArg struct {
	T string // int32 uint8 int8 uint32 float64 bool string int(untyped→Int)
	V uint64 // integer value / float bits / bool
	S string
	B []byte // string content as raw bytes (JSON cannot carry invalid UTF-8 in S)
}

type verifProgReq struct {
	Src      string
	Files    map[string]string // when set: Load(Pkg) from this tree instead of Eval(Src)
	Pkg      string
	Entry    string
	NRes     int
	Args     []verifArg
	Mode     int // 0: public API (optimizer on); 1: in-package replica, optimizer on; 2: replica, optimizer off
	Steps    []verifProgStep
	TreeDump bool
	CodeDump bool
}

// verifProgStep is one further action on the same VM (C17/C18 histories).
type verifProgStep struct {
	Op    string // "eval" | "call" | "load"
	Src   string
	Files map[string]string
	Pkg   string
	Entry string
	NRes  int
	Args  []verifArg
}

type verifOutcome struct {
	rets    []Value
	evalErr error
	callErr error
	out     string
}

func (a verifArg) value() Value {
	switch a.T {
	case "int32", "int":
		return Int32(int32(a.V))
	case "uint8":
		return Uint8(uint8(a.V))
	case "int8":
		return Int8(int8(a.V))
	case "uint32":
		return Uint32(uint32(a.V))
	case "float64":
		return Float64(math.Float64frombits(a.V))
	case "bool":
		return Bool(a.V != 0)
	case "string":
		if a.B != nil {
			return String(string(a.B))
		}
		return String(a.S)
	}
	panic("verifArg: unknown type " + a.T)
}

// verifEval evaluates src on vm.  mode 0 is the public Eval; modes 1 and 2 replicate its pipeline in-package so that
// the optimizer can be switched off (the replica is only ever compared against itself or against mode 0).
func verifEval(vm *VM, sys fs.FS, src string, mode int, options ...RunOption) ([]Value, error) {
	if mode == 0 {
		return vm.Eval(sys, "main.go", src, options...)
	}
	tokens, err := tokenize("main.go", src)
	if err != nil {
		return nil, fmt.Errorf("error in tokenize: %w", err)
	}
	tree, err := parse(tokens)
	if err != nil {
		return nil, fmt.Errorf("error in parse: %w", err)
	}
	cmp := &compiler{Globals: vm.globals, Locals: newLookup(), Imports: map[string]string{}, Optimize: mode == 1, PackageName: "main", ExportName: "main"}
	codes, slots, err := cmp.run(tree)
	if err != nil {
		return nil, fmt.Errorf("error in compile: %w", err)
	}
	rets, err := vm.run(codes, slots)
	if err != nil {
		return nil, fmt.Errorf("error in run: %w", err)
	}
	return rets, nil
}

// verifEvalCall: fresh VM, evaluate src, then (if entry != "") call entry with args.
func verifEvalCall(src string, entry string, nres int, args []Value, mode int) (o verifOutcome) {
	rec := &verifRecorder{}
	vm := New(WithStdout(rec))
	rets, err := verifEval(vm, verifMkFS(nil), src, mode)
	o.evalErr = err
	if err == nil {
		if entry != "" {
			rets, err = vm.Call(entry, nres, args...)
			o.callErr = err
		}
		o.rets = rets
	}
	o.out = rec.String()
	return o
}

// verifLoadCall: fresh VM, Load(pkg) from an in-memory tree, then call entry.
func verifLoadCall(files map[string]string, pkg string, entry string, nres int, args []Value) (o verifOutcome) {
	rec := &verifRecorder{}
	vm := New(WithStdout(rec))
	err := vm.Load(verifMkFS(files), pkg)
	o.evalErr = err
	if err == nil && entry != "" {
		rets, cerr := vm.Call(entry, nres, args...)
		o.callErr = cerr
		o.rets = rets
	}
	o.out = rec.String()
	return o
}

func verifDescribe(v Value) map[string]interface{} {
	m := map[string]interface{}{"T": int(v.t), "Num": math.Float64bits(v.num), "Str": v.String(), "StrB": []byte(v.String())}
	return m
}

func verifErrText(err error) string {
	if err == nil {
		return ""
	}
	return err.Error()
}

// verifRunProg is the native replay of a program request.
func verifRunProg(p *verifProgReq, resp map[string]interface{}) {
	args := make([]Value, len(p.Args))
	for i, a := range p.Args {
		args[i] = a.value()
	}
	var o verifOutcome
	if p.Files != nil {
		o = verifLoadCall(p.Files, p.Pkg, p.Entry, p.NRes, args)
	} else {
		o = verifEvalCall(p.Src, p.Entry, p.NRes, args, p.Mode)
	}
	var rets []map[string]interface{}
	for _, r := range o.rets {
		rets = append(rets, verifDescribe(r))
	}
	resp["Rets"] = rets
	resp["EvalErr"] = verifErrText(o.evalErr)
	resp["CallErr"] = verifErrText(o.callErr)
	resp["Out"] = o.out
	resp["OutB"] = []byte(o.out)
}

var _ = strings.Join

// verifValueString renders a Value for comparison (String() of containers walks the real printing code).
func verifValueString(v Value) string { return v.String() }

// verifC18Run evaluates the chunks one Eval at a time on one VM (sharing the import-alias map, as the REPL does)
// after pre-setting the inputs as globals main.in0, main.in1, ...; it returns the last Eval's values, the output,
// the first error and the named globals.
// verifC18Files: script packages a C18 sequence may import (state kept in initialiser-less package variables of
// several types; report imports store, so importing report in a later chunk loads store a second time).  Variables
// WITH an initialiser are never modified: a second load re-initialises them by design (C17), so a sequence that
// changed one in between would legitimately differ between whole and incremental evaluation.
var verifC18Files = map[string]string{
	"store/store.go": "package store\n\nvar Last any\nvar Hits int\nvar Names []string\nvar Seen map[string]int\nvar Base = 7\n\nfunc Put(v int) {\n\tLast = v\n\tHits++\n\tNames = append(Names, \"n\")\n\tif Seen == nil {\n\t\tSeen = map[string]int{}\n\t}\n\tSeen[\"k\"] = v\n}\n\nfunc Get() int {\n\tr := Hits*100 + len(Names)*10 + Base\n\tif Last == nil {\n\t\tr += 5000\n\t}\n\tif Seen != nil {\n\t\tr += Seen[\"k\"]\n\t}\n\treturn r\n}\n",
	"report/report.go": "package report\n\nimport \"store\"\n\nfunc Show() int {\n\treturn store.Get() + 100000\n}\n",
}

func verifC18Run(chunks []string, inputs []Value, globals []string) (o verifOutcome, gl []Value) {
	rec := &verifRecorder{}
	vm := New(WithStdout(rec))
	for i, v := range inputs {
		vm.Set(fmt.Sprintf("main.in%d", i), v)
	}
	imports := map[string]string{}
	for _, c := range chunks {
		rets, err := vm.Eval(verifMkFS(verifC18Files), "main.go", c, WithEvalImports(imports))
		if err != nil {
			o.evalErr = err
			break
		}
		o.rets = rets
	}
	o.out = rec.String()
	for _, g := range globals {
		gl = append(gl, vm.Get("main."+g))
	}
	return o, gl
}
