//go:build verif

package goatlang

import "fmt"

// C16 (shape L): treeSort on a top-level list whose node kinds are symbolic.
func verifC16TreeSort() {
	kinds := []string{"import", "type", "const", "method", "function", "init", "var", "call"}
	prio := map[string]int{"package": 100, "import": 90, "type": 80, "const": 70, "method": 60, "function": 50, "init": -10}
	n := verifCfg("c16_nodes", 5)
	top := &token{Text: "_"}
	for i := 0; i < n; i++ {
		k := kinds[verifChoice(fmt.Sprintf("kind%d", i), len(kinds))]
		t := &token{Symbol: k, Text: fmt.Sprintf("%d", i)}
		// positions as they look after joinFiles: offsets restart in every file, so they do not grow with the index
		t.Pos.Filename = fmt.Sprintf("f%d.go", i/2)
		t.Pos.Offset = (n - i) * 7 % 11
		t.Pos.Line = 1 + (n-i)%3
		top.Append(t)
	}
	before := append([]*token(nil), top.Tokens...)
	out := treeSort(top)
	verifAssert(out == top && len(top.Tokens) == n, "C16/L/same-nodes-count")
	seen := map[*token]int{}
	for _, t := range top.Tokens {
		seen[t]++
	}
	for _, t := range before {
		verifAssert(seen[t] == 1, "C16/L/permutation-of-input")
	}
	pos := map[*token]int{}
	for i, t := range before {
		pos[t] = i
	}
	for i := 1; i < len(top.Tokens); i++ {
		a, b := top.Tokens[i-1], top.Tokens[i]
		verifAssert(prio[a.Symbol] >= prio[b.Symbol], "C16/L/hoistables-first-init-last")
		if prio[a.Symbol] == prio[b.Symbol] {
			verifAssert(pos[a] < pos[b], "C16/L/equal-priority-keeps-source-order")
		}
	}
}

func init() { verifHarnesses["verifC16TreeSort"] = verifC16TreeSort }
