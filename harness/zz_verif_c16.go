//go:build verif

package goatlang

import "fmt"

// C16 (shape L): treeSort on a top-level list whose node kinds are symbolic.
func verifC16TreeSort() {
	kinds := []string{"import", "type", "const", "method", "function", "init", "var", "call"}
	prio := map[string]int{"package": 100, "import": 90, "type": 80, "const": 70, "method": 60, "function": 50, "init": -10}
	n := verifCfg("c16_nodes", 5)
	top := &token{Text: "_"}
	for i := 0; i < n; i++ {
		k := kinds[verifChoice(fmt.Sprintf("kind%d", i), len(kinds))]
		t := &token{Symbol: k, Text: fmt.Sprintf("%d", i)}
		// positions as they look after joinFiles: offsets restart in every file, so they do not grow with the index
		t.Pos.Filename = fmt.Sprintf("f%d.go", i/2)
		t.Pos.Offset = (n - i) * 7 % 11
		t.Pos.Line = 1 + (n-i)%3
		top.Append(t)
	}
	before := append([]*token(nil), top.Tokens...)
	out := treeSort(top)
	verifAssert(out == top && len(top.Tokens) == n, "C16/L/same-nodes-count")
	seen := map[*token]int{}
	for _, t := range top.Tokens {
		seen[t]++
	}
	for _, t := range before {
		verifAssert(seen[t] == 1, "C16/L/permutation-of-input")
	}
	pos := map[*token]int{}
	for i, t := range before {
		pos[t] = i
	}
	for i := 1; i < len(top.Tokens); i++ {
		a, b := top.Tokens[i-1], top.Tokens[i]
		verifAssert(prio[a.Symbol] >= prio[b.Symbol], "C16/L/hoistables-first-init-last")
		if prio[a.Symbol] == prio[b.Symbol] {
			verifAssert(pos[a] < pos[b], "C16/L/equal-priority-keeps-source-order")
		}
	}
}

func init() { verifHarnesses["verifC16TreeSort"] = verifC16TreeSort }

// verifC16Layouts (shape L, goatlang against goatlang): one package whose hoistable declarations include functions
// NAMED LIKE BUILTINS (len, append) is laid out in several permutations / file partitions; every layout must behave
// like the first one (whatever that behaviour is: the comparison is between layouts, not with Go).
var verifC16Hoist = []string{
	"func len(xs []int) int {\n\treturn 70\n}\n",
	"func use1(xs []int) int {\n\treturn len(xs)\n}\n",
	"func use2(xs []int) int {\n\treturn len(xs) + 1\n}\n",
	"type T struct {\n\tv int\n}\n",
	"func (t *T) size() int {\n\treturn len([]int{t.v, t.v}) * 10\n}\n",
	"func append(xs []int, v int) []int {\n\treturn []int{v, v, v}\n}\n",
	"func grow(xs []int, v int) int {\n\tys := append(xs, v)\n\treturn ys[0] + use1(ys)\n}\n",
}

const verifC16Tail = "func Main(a int) int {\n\tt := &T{v: a}\n\treturn use1([]int{1, 2, 3})*1000 + use2([]int{1})*100 + t.size() + grow([]int{5}, a)\n}\n"

// a layout = for every hoistable its file (0..2) and the order inside the files is the order of the permutation
var verifC16Perms = [][]int{
	{0, 1, 2, 3, 4, 5, 6}, {6, 5, 4, 3, 2, 1, 0}, {1, 2, 0, 4, 3, 6, 5}, {2, 1, 6, 0, 5, 3, 4}, {4, 6, 1, 2, 3, 0, 5}, {5, 0, 6, 4, 1, 2, 3},
}

func verifC16Run(perm []int, split int, a int32) (int32, string, bool) {
	nfiles := 1 + split%3
	bodies := make([]string, nfiles)
	for k, h := range perm {
		f := (k*(split+1) + split) % nfiles
		bodies[f] += verifC16Hoist[h] + "\n"
	}
	bodies[split%nfiles] += verifC16Tail
	files := map[string]string{}
	for i, b := range bodies {
		files["main/"+string(rune('a'+i*11))+".go"] = "package main\n\n" + b
	}
	rec := &verifRecorder{}
	vm := New(WithStdout(rec))
	if err := vm.Load(verifMkFS(files), "main"); err != nil {
		return 0, "load: " + err.Error(), false
	}
	rets, err := vm.Call("main.Main", 1, Int32(a))
	if err != nil || len(rets) != 1 {
		return 0, "call failed", false
	}
	return rets[0].Int32(), rec.String(), true
}

func verifC16Layouts() {
	a := verifInt32("a")
	r0, o0, ok0 := verifC16Run(verifC16Perms[0], 0, a)
	k := verifChoice("perm", len(verifC16Perms))
	split := verifChoice("split", 6)
	r, o, ok := verifC16Run(verifC16Perms[k], split, a)
	verifAssert(ok == ok0, "C16/layouts/same-outcome-as-the-first-layout")
	if ok && ok0 {
		verifAssert(r == r0, "C16/layouts/same-result-as-the-first-layout")
		verifAssert(o == o0, "C16/layouts/same-output-as-the-first-layout")
	}
}

func init() { verifHarnesses["verifC16Layouts"] = verifC16Layouts }
