//go:build verif

package goatlang

// C10 (shape L): script maps through the host Value API against a Go map kept by the harness.  Operation kinds and
// keys are symbolic; the solver enumerates all aliasing patterns of the keys.

func verifMapRangeOnce(m Value, refLen int, contains func(k Value) (Value, bool), id string) {
	next := m.Range()
	var seen []Value
	for n := 0; n < 64; n++ {
		k, v, ok := next()
		if !ok {
			break
		}
		want, live := contains(k)
		verifAssert(live, id+"/range-yields-live-key")
		if live {
			verifAssert(v.Equals(want) && v.t == want.t, id+"/range-value")
		}
		for _, s := range seen {
			verifAssert(!s.Equals(k), id+"/range-key-once")
		}
		seen = append(seen, k)
	}
	verifAssert(len(seen) == refLen, id+"/range-visits-all")
}

func verifH_C10_int() {
	m := NewMap(TypeInt32, TypeInt32, nil)
	ref := map[int32]int32{}
	steps := verifCfg("c10_steps", 4)
	for s := 0; s < steps; s++ {
		k := verifInt32(verifName("k", s))
		switch verifChoice(verifName("op", s), 4) {
		case 0:
			v := verifInt32(verifName("v", s))
			m.Set(Int32(k), Int32(v))
			ref[k] = v
		case 1:
			m.Delete(Int32(k))
			delete(ref, k)
		case 2:
			got, ok := m.Get(Int32(k))
			want, wok := ref[k]
			verifAssert(ok == wok, "C10/L/int/get-ok")
			if wok {
				verifAssert(got.t == TypeInt32 && got.num == float64(want), "C10/L/int/get-value")
			} else {
				verifAssert(got.t == TypeInt32 && got.num == 0, "C10/L/int/get-zero")
			}
		default:
			verifMapRangeOnce(m, len(ref), func(kv Value) (Value, bool) { w, ok := ref[kv.Int32()]; return Int32(w), ok && kv.t == TypeInt32 }, "C10/L/int")
		}
		verifAssert(m.Len() == len(ref), "C10/L/int/len")
	}
	verifMapRangeOnce(m, len(ref), func(kv Value) (Value, bool) { w, ok := ref[kv.Int32()]; return Int32(w), ok && kv.t == TypeInt32 }, "C10/L/int/final")
}

func verifH_C10_string() {
	keys := []string{"a", "b", "c"}
	m := NewMap(TypeString, TypeInt32, nil)
	ref := map[string]int32{}
	steps := verifCfg("c10_steps", 4)
	for s := 0; s < steps; s++ {
		k := keys[verifChoice(verifName("k", s), len(keys))]
		switch verifChoice(verifName("op", s), 4) {
		case 0:
			v := verifInt32(verifName("v", s))
			m.Set(String(k), Int32(v))
			ref[k] = v
		case 1:
			m.Delete(String(k))
			delete(ref, k)
		case 2:
			got, ok := m.Get(String(k))
			want, wok := ref[k]
			verifAssert(ok == wok, "C10/L/string/get-ok")
			if wok {
				verifAssert(got.t == TypeInt32 && got.num == float64(want), "C10/L/string/get-value")
			} else {
				verifAssert(got.t == TypeInt32 && got.num == 0, "C10/L/string/get-zero")
			}
		default:
			verifMapRangeOnce(m, len(ref), func(kv Value) (Value, bool) { w, ok := ref[kv.String()]; return Int32(w), ok && kv.t == TypeString }, "C10/L/string")
		}
		verifAssert(m.Len() == len(ref), "C10/L/string/len")
	}
	verifMapRangeOnce(m, len(ref), func(kv Value) (Value, bool) { w, ok := ref[kv.String()]; return Int32(w), ok && kv.t == TypeString }, "C10/L/string/final")
}

func verifH_C10_float() {
	m := NewMap(TypeFloat64, TypeString, nil)
	ref := map[float64]string{}
	vals := []string{"x", "y"}
	steps := verifCfg("c10_steps", 4)
	for s := 0; s < steps; s++ {
		k := verifFloat64(verifName("k", s))
		verifAssume(k == k) // NaN keys excepted by the property
		switch verifChoice(verifName("op", s), 3) {
		case 0:
			v := vals[verifChoice(verifName("v", s), 2)]
			m.Set(Float64(k), String(v))
			ref[k] = v
		case 1:
			m.Delete(Float64(k))
			delete(ref, k)
		default:
			got, ok := m.Get(Float64(k))
			want, wok := ref[k]
			verifAssert(ok == wok, "C10/L/float/get-ok")
			verifAssert(got.t == TypeString && got.String() == want, "C10/L/float/get-value-or-zero")
		}
		verifAssert(m.Len() == len(ref), "C10/L/float/len")
	}
	verifMapRangeOnce(m, len(ref), func(kv Value) (Value, bool) { w, ok := ref[kv.Float64()]; return String(w), ok && kv.t == TypeFloat64 }, "C10/L/float/final")
}

func verifH_C10_bool_uint8() {
	m := NewMap(TypeBool, TypeUint8, nil)
	ref := map[bool]uint8{}
	steps := verifCfg("c10_steps", 4)
	for s := 0; s < steps; s++ {
		k := verifBool(verifName("k", s))
		switch verifChoice(verifName("op", s), 3) {
		case 0:
			v := verifUint8(verifName("v", s))
			m.Set(Bool(k), Uint8(v))
			ref[k] = v
		case 1:
			m.Delete(Bool(k))
			delete(ref, k)
		default:
			got, ok := m.Get(Bool(k))
			want, wok := ref[k]
			verifAssert(ok == wok && got.t == TypeUint8 && got.num == float64(want), "C10/L/bool/get")
		}
		verifAssert(m.Len() == len(ref), "C10/L/bool/len")
	}
	verifMapRangeOnce(m, len(ref), func(kv Value) (Value, bool) { w, ok := ref[kv.Bool()]; return Uint8(w), ok && kv.t == TypeBool }, "C10/L/bool/final")
}

// nil maps answer reads like empty maps
func verifH_C10_nil() {
	var m Value = Value{t: mapType(TypeInt32, TypeString)}
	k := verifInt32("k")
	got, ok := m.Get(Int32(k))
	verifAssert(!ok && got.t == TypeString && got.String() == "", "C10/L/nil/get")
	verifAssert(m.Len() == 0, "C10/L/nil/len")
	_, _, more := m.Range()()
	verifAssert(!more, "C10/L/nil/range")
	m.Delete(Int32(k))
	verifAssert(m.Len() == 0, "C10/L/nil/delete")
}

// Mutation during iteration: the spec's guarantees, not an order.
func verifH_C10_range_mutation() {
	n := 2 + verifChoice("n", 3) // 2..4 initial keys 0..n-1
	m := NewMap(TypeInt32, TypeInt32, nil)
	for i := 0; i < n; i++ {
		m.Set(Int32(int32(i)), Int32(int32(100+i)))
	}
	// history before the loop (may leave tombstones / trigger compaction)
	pre := verifChoice("pre", 3)
	switch pre {
	case 1:
		m.Delete(Int32(0))
		m.Set(Int32(0), Int32(100))
	case 2:
		m.Delete(Int32(1))
		m.Delete(Int32(0))
		m.Set(Int32(1), Int32(101))
		m.Set(Int32(0), Int32(100))
	}
	mut := verifChoice("mut", 5)
	target := int32(verifChoice("target", 5)) // key 0..4 (4 is never initially present)
	at := verifChoice("at", 3)                // after how many visits the mutation happens
	visits := map[int32]int{}
	deletedBefore := map[int32]bool{}
	inserted := map[int32]bool{}
	step := 0
	next := m.Range()
	for guard := 0; guard < 32; guard++ {
		k, _, ok := next()
		if !ok {
			break
		}
		visits[k.Int32()]++
		verifAssert(!deletedBefore[k.Int32()], "C10/L/range-mutation/deleted-key-not-visited")
		step++
		if step == at+1 {
			switch mut {
			case 1: // delete a key (current, earlier or later)
				if visits[target] == 0 {
					deletedBefore[target] = true
				}
				m.Delete(Int32(target))
			case 2: // insert a key
				if _, had := m.Get(Int32(target)); !had {
					inserted[target] = true
				}
				m.Set(Int32(target), Int32(7))
			case 3: // delete then reinsert
				m.Delete(Int32(target))
				m.Set(Int32(target), Int32(8))
				inserted[target] = true
			case 4: // delete everything else (forces compaction)
				for j := int32(0); j < int32(n); j++ {
					if j != k.Int32() {
						if visits[j] == 0 {
							deletedBefore[j] = true
						}
						m.Delete(Int32(j))
					}
				}
			}
		}
	}
	for i := int32(0); i < 5; i++ {
		liveThroughout := int(i) < n && !deletedBefore[i] && !(mut == 1 && target == i) && !(mut == 3 && target == i) && !(mut == 4)
		if liveThroughout {
			verifAssert(visits[i] == 1, "C10/L/range-mutation/live-key-exactly-once")
		}
		verifAssert(visits[i] <= 1, "C10/L/range-mutation/at-most-once")
		if int(i) >= n && !inserted[i] {
			verifAssert(visits[i] == 0, "C10/L/range-mutation/absent-key-not-visited")
		}
	}
	// after the loop the map still iterates each live key once
	cnt := map[int32]int{}
	next = m.Range()
	for guard := 0; guard < 32; guard++ {
		k, _, ok := next()
		if !ok {
			break
		}
		cnt[k.Int32()]++
		verifAssert(cnt[k.Int32()] == 1, "C10/L/range-mutation/after/once")
	}
	verifAssert(len(cnt) == m.Len(), "C10/L/range-mutation/after/len")
}

// verifH_C10_range_delete_subset: n keys, an ARBITRARY subset (symbolic bit mask) is deleted after `at` visits, possibly
// followed by an insert; the key list may be compacted while the iterator still holds its snapshot.
func verifH_C10_range_delete_subset() {
	n := verifCfg("c10_subset_n", 8)
	strKeys := verifChoice("strkeys", 2) == 1
	key := func(i int) Value {
		if strKeys {
			return String(string(rune('a' + i)))
		}
		return Int32(int32(i))
	}
	idx := func(v Value) int {
		if strKeys {
			return int(v.String()[0] - 'a')
		}
		return int(v.Int32())
	}
	var m Value
	if strKeys {
		m = NewMap(TypeString, TypeInt32, nil)
	} else {
		m = NewMap(TypeInt32, TypeInt32, nil)
	}
	for i := 0; i < n; i++ {
		m.Set(key(i), Int32(int32(100+i)))
	}
	mask := int(verifInt16("mask"))
	at := verifChoice("at", 4)
	reinsert := verifChoice("reinsert", 2) == 1
	visits := make([]int, n+1)
	deletedBefore := make([]bool, n+1)
	gone := make([]bool, n+1)
	step := 0
	next := m.Range()
	for guard := 0; guard < 4*n+8; guard++ {
		k, v, ok := next()
		if !ok {
			break
		}
		i := idx(k)
		visits[i]++
		verifAssert(!deletedBefore[i], "C10/L/range-subset/deleted-key-not-visited")
		verifAssert(v.Int32() == int32(100+i), "C10/L/range-subset/value-of-key")
		step++
		if step == at+1 {
			for j := 0; j < n; j++ {
				if (mask>>uint(j))&1 == 1 {
					if visits[j] == 0 {
						deletedBefore[j] = true
					}
					gone[j] = true
					m.Delete(key(j))
				}
			}
			if reinsert {
				m.Set(key(n), Int32(int32(100+n)))
			}
		}
	}
	for i := 0; i <= n; i++ {
		verifAssert(visits[i] <= 1, "C10/L/range-subset/at-most-once")
		if i < n && !gone[i] {
			verifAssert(visits[i] == 1, "C10/L/range-subset/live-key-exactly-once")
		}
	}
	live := 0
	for i := 0; i < n; i++ {
		if !gone[i] {
			live++
		}
	}
	if reinsert && step > at {
		live++
	}
	verifAssert(m.Len() == live, "C10/L/range-subset/len")
	cnt := make([]int, n+1)
	total := 0
	next = m.Range()
	for guard := 0; guard < 4*n+8; guard++ {
		k, _, ok := next()
		if !ok {
			break
		}
		cnt[idx(k)]++
		total++
		verifAssert(cnt[idx(k)] == 1, "C10/L/range-subset/after/once")
	}
	verifAssert(total == live, "C10/L/range-subset/after/len")
}

func init() {
	verifHarnesses["verifH_C10_range_delete_subset"] = verifH_C10_range_delete_subset
	verifHarnesses["verifH_C10_int"] = verifH_C10_int
	verifHarnesses["verifH_C10_string"] = verifH_C10_string
	verifHarnesses["verifH_C10_float"] = verifH_C10_float
	verifHarnesses["verifH_C10_bool_uint8"] = verifH_C10_bool_uint8
	verifHarnesses["verifH_C10_nil"] = verifH_C10_nil
	verifHarnesses["verifH_C10_range_mutation"] = verifH_C10_range_mutation
}
