//go:build verif

package goatlang

// Harness API shared by the symbolic engine (which intercepts the verif* intrinsics by name) and by the native
// replay binary (where they read a concrete input vector).  This file is injected into package goatlang through a
// build overlay; nothing here is committed to /repo.

import (
	"bufio"
	"encoding/json"
	"fmt"
	"math"
	"os"
	"sort"
	"strings"
	"testing/fstest"

)

// ---- nondeterministic inputs -------------------------------------------------------------------------------------

var verifVec = map[string]uint64{}

func verifInt8(name string) int8       { return int8(verifVec[name]) }
func verifUint8(name string) uint8     { return uint8(verifVec[name]) }
func verifInt16(name string) int16     { return int16(verifVec[name]) }
func verifInt32(name string) int32     { return int32(verifVec[name]) }
func verifUint32(name string) uint32   { return uint32(verifVec[name]) }
func verifInt(name string) int         { return int(verifVec[name]) }
func verifUint(name string) uint       { return uint(verifVec[name]) }
func verifBool(name string) bool       { return verifVec[name] != 0 }
func verifFloat64(name string) float64 { return math.Float64frombits(verifVec[name]) }
func verifChoice(name string, n int) int {
	v := int(verifVec[name])
	if v < 0 || v >= n {
		panic(verifInfeasible{})
	}
	return v
}

type verifInfeasible struct{}

var verifFailed []string
var verifReached = map[string]int{}

func verifAssume(c bool) {
	if !c {
		panic(verifInfeasible{})
	}
}
func verifAssert(c bool, id string) {
	if !c {
		verifFailed = append(verifFailed, id)
	}
}
func verifReach(id string) { verifReached[id]++ }

// ---- recorder for script output ------------------------------------------------------------------------------------

type verifRecorder struct{ buf []byte }

func (r *verifRecorder) Write(p []byte) (int, error) { r.buf = append(r.buf, p...); return len(p), nil }
func (r *verifRecorder) String() string { return string(r.buf) }

// ---- harness registry --------------------------------------------------------------------------------------------

var verifHarnesses = map[string]func(){}

// ---- native entry point --------------------------------------------------------------------------------------------

type verifReq struct {
	Op      string
	Fname   string
	Src     string
	Harness string
	Vec     map[string]uint64
	Prog    *verifProgReq
	Chunks  []string
	Globals []string
}

type verifTok struct {
	File           string
	Off, Line, Col int
	Sym, Text      string
}

func verifServe(req *verifReq) (resp map[string]interface{}) {
	resp = map[string]interface{}{}
	defer func() {
		if r := recover(); r != nil {
			if _, ok := r.(verifInfeasible); ok {
				resp["Infeasible"] = true
				return
			}
			resp["HostPanic"] = fmt.Sprint(r)
		}
	}()
	switch req.Op {
	case "tokenize":
		toks, err := tokenize(req.Fname, req.Src)
		out := make([]verifTok, len(toks))
		for i, t := range toks {
			out[i] = verifTok{File: t.Pos.Filename, Off: t.Pos.Offset, Line: t.Pos.Line, Col: t.Pos.Column, Sym: t.Symbol, Text: t.Text}
		}
		resp["Tokens"] = out
		if err != nil {
			resp["Err"] = err.Error()
		}
	case "constraint":
		ok, err := checkConstraint(req.Src)
		resp["OK"] = ok
		if err != nil {
			resp["Err"] = err.Error()
		}
	case "harness":
		h := verifHarnesses[req.Harness]
		if h == nil {
			resp["Err"] = "no such harness: " + req.Harness
			return
		}
		verifSrc = req.Src
		verifVec = req.Vec
		if verifVec == nil {
			verifVec = map[string]uint64{}
		}
		verifFailed = nil
		verifReached = map[string]int{}
		verifText = ""
		h()
		resp["Text"] = verifText
		resp["Failed"] = verifFailed
		resp["Reached"] = verifReached
	case "prog":
		verifRunProg(req.Prog, resp)
	case "c18":
		verifVec = req.Vec
		o, gl := verifC18Run(req.Chunks, []Value{Int32(int32(req.Vec["in0"])), Int32(int32(req.Vec["in1"]))}, req.Globals)
		resp["Out"] = o.out
		resp["Err"] = verifErrText(o.evalErr)
		var rets, gs []string
		for _, r := range o.rets {
			rets = append(rets, fmt.Sprintf("t%d:%s", int(r.t.base()), r.String()))
		}
		for _, g := range gl {
			if g.t.base() == TypeFunc {
				gs = append(gs, "func")
			} else {
				gs = append(gs, fmt.Sprintf("t%d:%s", int(g.t.base()), g.String()))
			}
		}
		resp["Rets"], resp["Gl"] = rets, gs
	case "list":
		var names []string
		for n := range verifHarnesses {
			names = append(names, n)
		}
		sort.Strings(names)
		resp["Harnesses"] = names
	default:
		resp["Err"] = "unknown op " + req.Op
	}
	return resp
}

// VerifMain is the main function of the native helper binary: "serve" answers one JSON request per line;
// "once" answers a single request and exits (a host crash then only kills this process).
func VerifMain() {
	in := bufio.NewReaderSize(os.Stdin, 1<<20)
	out := bufio.NewWriter(os.Stdout)
	for {
		line, err := in.ReadBytes('\n')
		if len(line) > 0 {
			var req verifReq
			var resp map[string]interface{}
			if jerr := json.Unmarshal(line, &req); jerr != nil {
				resp = map[string]interface{}{"Err": "bad request: " + jerr.Error()}
			} else {
				resp = verifServe(&req)
			}
			b, _ := json.Marshal(resp)
			out.Write(b)
			out.WriteByte('\n')
			out.Flush()
			if len(os.Args) > 1 && os.Args[1] == "once" {
				return
			}
		}
		if err != nil {
			return
		}
	}
}
var _ = strings.Join

// verifFS is the in-memory file tree handed to Eval/Load (a map from slash-separated path to file content).
type verifFS = fstest.MapFS

func verifMkFS(files map[string]string) verifFS {
	m := verifFS{}
	for k, v := range files {
		m[k] = &fstest.MapFile{Data: []byte(v)}
	}
	return m
}

// ---- branch-free logic (the engine builds terms; no path fork) ---------------------------------------------------

func verifAnd(a, b bool) bool     { return a && b }
func verifOr(a, b bool) bool      { return a || b }
func verifNot(a bool) bool        { return !a }
func verifImplies(a, b bool) bool { return !a || b }
func verifIteInt(c bool, a, b int) int {
	if c {
		return a
	}
	return b
}

// verifCfg returns a check-tier parameter (the engine supplies it and records it in every counterexample vector).
func verifCfg(name string, def int) int {
	if v, ok := verifVec["cfg_"+name]; ok {
		return int(v)
	}
	return def
}

// verifCatch runs f and reports whether it panicked (infeasible-path markers pass through).
func verifCatch(f func()) (panicked bool) {
	defer func() {
		if r := recover(); r != nil {
			if _, ok := r.(verifInfeasible); ok {
				panic(r)
			}
			panicked = true
		}
	}()
	f()
	return false
}

// verifSameF: equal as float64 values, all NaNs alike.
func verifSameF(a, b float64) bool { return verifOr(a == b, verifAnd(a != a, b != b)) }
