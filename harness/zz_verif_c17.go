//go:build verif

package goatlang

import "fmt"

// C17 (shape L): histories of (load version k | call entry point | call captured function value | call captured
// bound method | capture) against the behaviour the property prescribes: code is swapped in place, package variables
// without initialiser keep their value, variables with initialiser are re-initialised, reloading identical source
// changes nothing.

type verifC17Ver struct{ m, a, b, c int32 }

var verifC17Versions = []verifC17Ver{{2, 1, 10, 3}, {5, 7, 20, 4}, {-3, 100, 30, 1}}

func verifC17Src(v verifC17Ver) string {
	extra := ""
	if v.m == -3 { // the third version declares three more fields
		extra = "\tw int\n\tx2 string\n\ty2 bool\n"
	}
	return fmt.Sprintf(`package main

type T struct {
	v int
%s}

var counter int

var base int = %d

var zeroed int = 0

var zs = 0

func (t *T) val(a int) int {
	return t.v*%d + a
}

func compute(a int) int {
	return a*%d + %d
}

func scaled(base int, counter int) int {
	zs := base + counter
	return zs * 2
}

func Step(a int) int {
	counter++
	return compute(a) + base + counter + zeroed*3 + zs*7 + scaled(a, 1) - (a+1)*2
}

func NewT(v int) *T {
	return &T{v: v}
}

func Bound(t *T) func(int) int {
	return t.val
}

func CallVal(t *T, a int) int {
	return t.val(a)
}

func Bump() {
	base += 1000
	zeroed += 5
	zs += 2
}

type Shape interface {
	Area() int
}

func (t *T) Area() int {
	return t.v * 2
}

var last any
var name string
var items []int
var tab map[string]int
var curT *T
var shape Shape
var flag bool
var ratio float64
var small byte
var fn func(int) int

func Remember(a int) {
	last = a
	name = "set"
	items = append(items, a)
	if tab == nil {
		tab = map[string]int{}
	}
	tab["k"] = a
	curT = &T{v: a}
	shape = &T{v: a}
	flag = true
	ratio = 2.5
	small = 200
	fn = compute
}

func Recall() int {
	r := len(items) * 1024
	if last != nil {
		r += 1
	}
	if name == "set" {
		r += 2
	}
	if flag {
		r += 4
	}
	if curT != nil {
		r += 8
	}
	if tab != nil {
		r += 16
	}
	if ratio > 2 {
		r += 32
	}
	if small == 200 {
		r += 64
	}
	if shape != nil {
		r += 128
	}
	if fn != nil {
		r += 256
	}
	return r
}

func RecallVal() int {
	if curT == nil {
		return -1
	}
	return tab["k"]*3 + curT.v + shape.Area() + items[len(items)-1]
}
`, extra, v.b, v.c, v.m, v.a)
}

func verifC17() {
	steps := verifCfg("c17_steps", 4)
	vm := New(WithStdout(&verifRecorder{}))
	wide := false // the version with the extra fields has been loaded at least once (fields are never removed)
	load := func(k int) bool {
		err := vm.Load(verifMkFS(map[string]string{"main/main.go": verifC17Src(verifC17Versions[k])}), "main")
		verifAssert(err == nil, "C17/load-succeeds")
		if k == 2 {
			wide = true
		}
		return err == nil
	}
	render := func(v int32, w bool) string {
		if w {
			return "&{v:" + Int32(v).String() + " w:0 x2: y2:false}"
		}
		return "&{v:" + Int32(v).String() + "}"
	}
	instWide := false
	cur := verifChoice("v0", len(verifC17Versions))
	if !load(cur) {
		return
	}
	var counter, base int32 = 0, verifC17Versions[cur].b
	var zeroed, zs int32 // declared with the initialiser 0: re-initialised by every load
	var fv, bm, inst Value
	haveFv, haveBm, haveInst := false, false, false
	var instV, bmV int32
	call1 := func(rets []Value, err error, want int32, id string) {
		verifAssert(err == nil && len(rets) == 1, id+"/outcome")
		if err == nil && len(rets) == 1 {
			verifAssert(rets[0].t == TypeInt32 && rets[0].num == float64(want), id+"/value")
		}
	}
	remembered, nItems, lastA := false, int32(0), int32(0)
	recall := func(id string) {
		want := nItems * 1024
		if remembered {
			want += 511
		}
		rets, err := vm.Call("main.Recall", 1)
		call1(rets, err, want, id)
		if remembered {
			rets, err = vm.Call("main.RecallVal", 1)
			call1(rets, err, lastA*3+lastA+lastA*2+lastA, id+"/values")
		}
	}
	for s := 0; s < steps; s++ {
		a := verifInt32(verifName("a", s))
		switch verifChoice(verifName("act", s), 10) {
		case 0: // reload (possibly the same version)
			k := verifChoice(verifName("ver", s), len(verifC17Versions))
			if !load(k) {
				return
			}
			cur = k
			base = verifC17Versions[k].b // re-initialised; counter keeps its value
			zeroed, zs = 0, 0
		case 1:
			v := verifC17Versions[cur]
			counter++
			rets, err := vm.Call("main.Step", 1, Int32(a))
			call1(rets, err, a*v.m+v.a+base+counter+zeroed*3+zs*7, "C17/entry-point-runs-current-code-and-state")
		case 2:
			fv, haveFv = vm.Get("main.compute"), true
		case 3:
			if haveFv {
				v := verifC17Versions[cur]
				rets, err := vm.Func(fv, 1, Int32(a))
				call1(rets, err, a*v.m+v.a, "C17/captured-function-value-runs-new-code")
			}
		case 4:
			rets, err := vm.Call("main.NewT", 1, Int32(a))
			if err == nil && len(rets) == 1 {
				inst, haveInst, instV, instWide = rets[0], true, a, wide
			}
		case 5:
			if haveInst {
				rets, err := vm.Call("main.Bound", 1, inst)
				if err == nil && len(rets) == 1 {
					bm, haveBm, bmV = rets[0], true, instV
				}
			}
		case 6:
			if haveBm {
				v := verifC17Versions[cur]
				rets, err := vm.Func(bm, 1, Int32(a))
				call1(rets, err, bmV*v.c+a, "C17/captured-bound-method-runs-new-code-on-old-instance")
			}
			if haveInst {
				v := verifC17Versions[cur]
				rets, err := vm.Call("main.CallVal", 1, inst, Int32(a))
				call1(rets, err, instV*v.c+a, "C17/method-on-existing-instance-runs-new-code")
			}
		case 7:
			_, err := vm.Call("main.Remember", 0, Int32(a))
			verifAssert(err == nil, "C17/remember")
			remembered, nItems, lastA = true, nItems+1, a
		case 8:
			recall("C17/uninitialised-variables-of-every-type-keep-their-values")
		default:
			_, err := vm.Call("main.Bump", 0)
			verifAssert(err == nil, "C17/bump")
			base += 1000
			zeroed += 5
			zs += 2
		}
	}
	recall("C17/final/uninitialised-variables-of-every-type-keep-their-values")
	// an instance created after the history renders with its fields, in declaration order, like one created before it
	{
		x := verifInt32("final_new")
		rets, err := vm.Call("main.NewT", 1, Int32(x))
		verifAssert(err == nil && len(rets) == 1, "C17/final/new-instance")
		if err == nil && len(rets) == 1 {
			verifAssert(rets[0].String() == render(x, wide), "C17/final/new-instance-renders-its-fields-in-declaration-order")
			out, err := vm.Call("main.CallVal", 1, rets[0], Int32(1))
			call1(out, err, x*verifC17Versions[cur].c+1, "C17/final/method-on-new-instance")
		}
		if haveInst {
			verifAssert(inst.String() == render(instV, instWide), "C17/final/old-instance-renders-its-fields")
		}
	}
	// whatever was captured during the history must run the code of the version loaded last
	if haveFv {
		v := verifC17Versions[cur]
		x := verifInt32("final_fv")
		rets, err := vm.Func(fv, 1, Int32(x))
		call1(rets, err, x*v.m+v.a, "C17/final/captured-function-value-runs-new-code")
	}
	if haveBm {
		v := verifC17Versions[cur]
		x := verifInt32("final_bm")
		rets, err := vm.Func(bm, 1, Int32(x))
		call1(rets, err, bmV*v.c+x, "C17/final/captured-bound-method-runs-new-code")
	}
	if haveInst {
		v := verifC17Versions[cur]
		x := verifInt32("final_inst")
		rets, err := vm.Call("main.CallVal", 1, inst, Int32(x))
		call1(rets, err, instV*v.c+x, "C17/final/method-on-old-instance-runs-new-code")
	}
	v := verifC17Versions[cur]
	counter++
	a := verifInt32("final")
	rets, err := vm.Call("main.Step", 1, Int32(a))
	call1(rets, err, a*v.m+v.a+base+counter+zeroed*3+zs*7, "C17/final-step")
}

func init() { verifHarnesses["verifC17"] = verifC17 }
