//go:build verif

package goatlang

import (
	"fmt"
	"strings"
)

// C15: packages initialise once each, dependencies first, for any import graph; cycles and conflicting package
// clauses are errors; _test.go files and files excluded by build constraints are ignored; vendor/ and shortened
// import paths are searched.  The import relation and the file layout are symbolic.

func verifC15Name(i int) string { return fmt.Sprintf("p%d", i) }

// verifC15 builds the file tree for an arbitrary import relation over n packages + main and loads main.
func verifC15() {
	n := verifCfg("c15_packages", 3)
	edge := make([][]bool, n)
	for i := range edge {
		edge[i] = make([]bool, n)
		for j := range edge[i] {
			if i != j {
				edge[i][j] = verifBool(fmt.Sprintf("e_%d_%d", i, j))
			}
		}
	}
	mainImp := make([]bool, n)
	for i := range mainImp {
		mainImp[i] = verifBool(fmt.Sprintf("m_%d", i))
	}
	selfCycle := false
	layout := verifChoice("layout", 9)
	// import path prefix under which the packages live, and where the files really are
	prefix, dirPrefix := "", ""
	switch layout {
	case 1:
		dirPrefix = "vendor/"
	case 2:
		prefix, dirPrefix = "example.com/lib/", "lib/" // shortened path: example.com/lib/p0 found at lib/p0
	case 3:
		prefix, dirPrefix = "example.com/lib/", "vendor/example.com/lib/"
	case 7:
		// the full path exists AND a shorter suffix of it exists as another directory: the first candidate wins
		prefix, dirPrefix = "a/", "a/"
	case 8:
		// vendor/<path> exists AND <path> exists: vendor/ is searched first
		dirPrefix = "vendor/"
	}
	files := map[string]string{}
	files["log/log.go"] = "package log\n\nimport \"fmt\"\n\nfunc Note(s string) int {\n\tfmt.Println(s)\n\treturn 0\n}\n"
	if verifCfg("c15_plain_layout_only", 0) == 1 {
		verifAssume(layout == 0)
	}
	// import spelling: separate lines, one parenthesised group, a group of blank imports (side effects only), aliases
	istyle := verifChoice("import_style", 4)
	if verifCfg("c15_plain_layout_only", 0) == 1 {
		verifAssume(istyle <= 1)
	}
	pkgSrc := func(name string, imports []string) (decls, inits string) {
		var sb strings.Builder
		sb.WriteString("package " + name + "\n\n")
		switch istyle {
		case 0:
			sb.WriteString("import \"log\"\n")
			for _, im := range imports {
				sb.WriteString("import \"" + im + "\"\n")
			}
		case 1:
			sb.WriteString("import (\n\t\"log\"\n")
			for _, im := range imports {
				sb.WriteString("\t\"" + im + "\"\n")
			}
			sb.WriteString(")\n")
		case 2:
			sb.WriteString("import (\n\t\"log\"\n")
			for _, im := range imports {
				sb.WriteString("\t_ \"" + im + "\"\n")
			}
			sb.WriteString(")\n")
		default: // aliases are accepted inside a group only
			sb.WriteString("import (\n\t\"log\"\n")
			for _, im := range imports {
				short := im[strings.LastIndex(im, "/")+1:]
				sb.WriteString("\tal_" + short + " \"" + im + "\"\n")
			}
			sb.WriteString(")\n")
		}
		sb.WriteString("\nvar V = log.Note(\"top " + name + "\")\n")
		for _, im := range imports {
			short := im[strings.LastIndex(im, "/")+1:]
			switch istyle {
			case 2:
			case 3:
				sb.WriteString("var use_" + short + " = al_" + short + ".V\n")
			default:
				sb.WriteString("var use_" + short + " = " + short + ".V\n")
			}
		}
		return sb.String(), "package " + name + "\n\nimport \"log\"\n\nfunc init() {\n\tlog.Note(\"init " + name + "\")\n}\n"
	}
	for i := 0; i < n; i++ {
		var imps []string
		for j := 0; j < n; j++ {
			if edge[i][j] {
				imps = append(imps, prefix+verifC15Name(j))
			}
		}
		decls, inits := pkgSrc(verifC15Name(i), imps)
		dir := dirPrefix + verifC15Name(i) + "/"
		switch layout {
		case 4: // one file
			files[dir+"all.go"] = decls + strings.SplitN(inits, "\n\n", 3)[2]
		default: // two files, the init in the later one
			files[dir+"a_decls.go"] = decls
			files[dir+"z_init.go"] = inits
		}
		if layout == 5 {
			files[dir+"x_test.go"] = "package " + verifC15Name(i) + "\n\nimport \"log\"\n\nvar T = log.Note(\"TESTFILE " + verifC15Name(i) + "\")\n"
			files[dir+"y_test.go"] = "package " + verifC15Name(i) + "\n\nimport \"log\"\n\nvar T2 = log.Note(\"TESTFILE2 " + verifC15Name(i) + "\")\n\nfunc init() {\n\tlog.Note(\"TESTFILE3 " + verifC15Name(i) + "\")\n}\n"
			files[dir+"x_more_test.go"] = "package " + verifC15Name(i) + "\n\nimport \"log\"\n\nvar T4 = log.Note(\"TESTFILE4 " + verifC15Name(i) + "\")\n"
			files[dir+"excluded.go"] = "//go:build ignore\n\npackage " + verifC15Name(i) + "\n\nimport \"log\"\n\nvar E = log.Note(\"EXCLUDED " + verifC15Name(i) + "\")\n"
			files[dir+"nongoat.go"] = "//go:build !goat\n\npackage " + verifC15Name(i) + "\n\nimport \"log\"\n\nvar N = log.Note(\"NONGOAT " + verifC15Name(i) + "\")\n"
			// an excluded file may hold Go that is outside the script subset: it is not even parsed
			files[dir+"native.go"] = "//go:build !goat\n\npackage " + verifC15Name(i) + "\n\nfunc Gen[T any](x T) T {\n\treturn x\n}\n\nvar ch = make(chan int, 1)\n\nfunc wait() int {\n\tselect {\n\tcase v := <-ch:\n\t\treturn v\n\tdefault:\n\t}\n\tgo wait()\n\treturn 0\n}\n"
			files[dir+"goatonly.go"] = "//go:build goat\n\npackage " + verifC15Name(i) + "\n\nimport \"log\"\n\nvar G = log.Note(\"goat " + verifC15Name(i) + "\")\n"
			// placement: a constraint counts only before the package clause (blank lines and line comments may precede it)
			files[dir+"header.go"] = "// Copyright header\n// second line\n\n//go:build !goat\n\npackage " + verifC15Name(i) + "\n\nimport \"log\"\n\nvar H = log.Note(\"HEADERSKIP " + verifC15Name(i) + "\")\n"
			files[dir+"late.go"] = "package " + verifC15Name(i) + "\n\n//go:build ignore\n\nimport \"log\"\n\nvar L = log.Note(\"late " + verifC15Name(i) + "\")\n"
			files[dir+"quoted.go"] = "package " + verifC15Name(i) + "\n\nimport \"log\"\n\n/*\n//go:build ignore\n*/\nvar Q = log.Note(\"quoted " + verifC15Name(i) + "\" + `\n//go:build ignore\n`[0:0])\n"
		}
		if layout == 7 || layout == 8 {
			// the decoy directory at the later search position must never be loaded
			files[verifC15Name(i)+"/decoy.go"] = "package " + verifC15Name(i) + "\n\nimport \"log\"\n\nvar V = log.Note(\"DECOY " + verifC15Name(i) + "\")\n"
		}
		if layout == 6 && i == 0 {
			files[dir+"conflict.go"] = "package other\n"
		}
	}
	var mimps []string
	for i, b := range mainImp {
		if b {
			mimps = append(mimps, prefix+verifC15Name(i))
		}
	}
	mdecl, minit := pkgSrc("main", mimps)
	files["main/main.go"] = mdecl
	files["main/zinit.go"] = minit
	// reference: reachability and cycles
	reach := make([]bool, n)
	var visit func(i int)
	visit = func(i int) {
		if reach[i] {
			return
		}
		reach[i] = true
		for j := 0; j < n; j++ {
			if edge[i][j] {
				visit(j)
			}
		}
	}
	for i, b := range mainImp {
		if b {
			visit(i)
		}
	}
	cyclic := selfCycle
	state := make([]int, n)
	var dfs func(i int)
	dfs = func(i int) {
		state[i] = 1
		for j := 0; j < n; j++ {
			if edge[i][j] {
				if state[j] == 1 {
					cyclic = true
				} else if state[j] == 0 {
					dfs(j)
				}
			}
		}
		state[i] = 2
	}
	for i := 0; i < n; i++ {
		if reach[i] && state[i] == 0 {
			dfs(i)
		}
	}
	rec := &verifRecorder{}
	vm := New(WithStdout(rec))
	err := vm.Load(verifMkFS(files), "main")
	out := rec.String()
	verifC15Out, verifC15Err = out, ""
	if err != nil {
		verifC15Err = err.Error()
	}
	conflict := layout == 6 && reach[0]
	if cyclic || conflict {
		verifAssert(err != nil, "C15/cycle-or-conflict-is-an-error")
		return
	}
	verifAssert(err == nil, "C15/acyclic-graph-loads")
	if err != nil {
		return
	}
	lines := strings.Split(strings.TrimSpace(out), "\n")
	index := func(s string) (first, count int) {
		first = -1
		for k, l := range lines {
			if l == s {
				if first < 0 {
					first = k
				}
				count++
			}
		}
		return
	}
	for i := 0; i < n; i++ {
		name := verifC15Name(i)
		ft, ct := index("top " + name)
		fi, ci := index("init " + name)
		if reach[i] {
			verifAssert(ct == 1 && ci == 1, "C15/package-initialised-exactly-once")
			verifAssert(ft < fi, "C15/top-level-before-init")
			for j := 0; j < n; j++ {
				if edge[i][j] {
					_, _ = j, name
					dt, _ := index("top " + verifC15Name(j))
					di, _ := index("init " + verifC15Name(j))
					verifAssert(dt >= 0 && dt < ft && di >= 0 && di < ft, "C15/dependency-first")
				}
			}
			if layout == 5 {
				_, cg := index("goat " + name)
				verifAssert(cg == 1, "C15/goat-tagged-file-included")
				_, cl := index("late " + name)
				_, cq := index("quoted " + name)
				verifAssert(cl == 1 && cq == 1, "C15/constraint-text-after-the-package-clause-is-ignored")
			}
		} else {
			verifAssert(ct == 0 && ci == 0, "C15/unreachable-package-not-loaded")
		}
	}
	mt, mc := index("top main")
	mi, mic := index("init main")
	verifAssert(mc == 1 && mic == 1 && mt < mi, "C15/main-once")
	for i, b := range mainImp {
		if b {
			di, _ := index("init " + verifC15Name(i))
			verifAssert(di >= 0 && di < mt, "C15/main-after-its-imports")
		}
	}
	verifAssert(!strings.Contains(out, "TESTFILE") && !strings.Contains(out, "EXCLUDED") && !strings.Contains(out, "NONGOAT"), "C15/ignored-files-not-run")
	verifAssert(!strings.Contains(out, "HEADERSKIP"), "C15/constraint-after-a-header-comment-excludes-the-file")
	verifAssert(!strings.Contains(out, "DECOY"), "C15/first-search-candidate-wins")
}

var verifC15Out, verifC15Err string

func init() { verifHarnesses["verifC15"] = verifC15 }
