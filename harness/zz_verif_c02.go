//go:build verif

package goatlang

// C02 (shape L): rule lemmas for the peephole optimizer.  An instruction window with SYMBOLIC opcodes and operands is
// run through the real doOptimize; whenever it rewrites the window, the original and the rewritten window are executed
// by the real VM.exec from the same arbitrary machine state (locals and operand stack holding values of every kind)
// and must leave the same stack, the same locals and the same outcome, and the rewritten window must report the same
// source line.  Because the rules are discovered by running doOptimize, a rule added or changed in /repo is checked
// without touching this harness.

const verifC02Prelude = `type P struct {
	x int
	y byte
}

func (p *P) m(a int) int {
	return p.x + a
}

func (p *P) two(a int) (int, int) {
	return p.x, a
}

func g(a int) int {
	return a + 1
}

func g2(a int, b int) (int, int) {
	return b, a
}

func mk(v int) *P {
	return &P{x: v, y: 250}
}

var K = 7
`

var verifC02Ops = []code{codeLocalGet, codeLocalSet, codeIncDec, codeAdd, codeSub, codeMul, codeDiv, codePush, codeConst, codeGet, codeSet,
	codeGetAttr, codeSetAttr, codeCall, codeGlobalGet, codeJump, codePop, codeLt, codeNegate, codeJumpFalse, codeJumpTrue}

// verifC02Value builds an arbitrary value of kind k (numeric payloads symbolic).
func verifC02Value(vm *VM, name string, k int) Value {
	n := verifInt32(name + "_n")
	switch k {
	case 0:
		return Int32(n)
	case 1:
		return Uint8(uint8(n))
	case 2:
		return Int8(int8(n))
	case 3:
		return Uint32(uint32(n))
	case 4:
		return Float64(verifFloat64(name + "_f"))
	case 5:
		return newUntypedInt(int(n))
	case 6:
		return String("s")
	case 7:
		return NewSlice(TypeInt32, []Value{Int32(n), Int32(n + 1), Int32(7)})
	case 8:
		return NewMap(TypeString, TypeInt32, []Value{String("k"), Int32(n)})
	case 9:
		r, err := vm.Call("main.mk", 1, Int32(n))
		if err != nil || len(r) != 1 {
			panic(verifInfeasible{})
		}
		return r[0]
	case 10:
		return Bool(n > 0)
	default:
		return Nil()
	}
}

type verifC02State struct {
	vm     *VM
	stack  []Value
	locals int
}

// verifC02Run executes codes on a fresh copy of the machine state described by the kinds.
func verifC02Run(vm *VM, codes []instruction, kinds []int) (st []Value, panicked bool, line int) {
	names := []string{"l0", "l1", "s0", "s1"}
	stack := make([]Value, len(kinds))
	for i, k := range kinds {
		stack[i] = verifC02Value(vm, names[i], k)
	}
	run := &VM{globals: vm.globals, stdout: vm.stdout, stack: stack, frame: frame{Codes: codes}}
	line = -1
	func() {
		defer func() {
			if r := recover(); r != nil {
				if _, ok := r.(verifInfeasible); ok {
					panic(r)
				}
				panicked = true
				if n := run.frame.N; n >= 0 && n < len(run.frame.Codes) && run.frame.Codes[n].Pos != 0 {
					_, _, line, _ = run.frame.Codes[n].Pos.info(run.globals)
				}
			}
		}()
		run.exec()
	}()
	return run.stack, panicked, line
}

func verifC02SameValue(a, b Value) bool {
	if a.t != b.t {
		return false
	}
	if a.t == TypeFunc {
		return true // function values have no comparable rendering (addresses); same dynamic type is all that is compared
	}
	if a.t.base() == TypeString || a.t >= nillableMin {
		return a.String() == b.String()
	}
	return verifSameF(a.num, b.num)
}

func verifH_C02_window() {
	n := verifCfg("c02_window", 3)
	vm0 := New(WithStdout(&verifRecorder{}))
	if _, err := vm0.Eval(verifMkFS(nil), "main.go", verifC02Prelude); err != nil {
		verifAssert(false, "C02/L/prelude")
		return
	}
	g := vm0.globals
	// operands an instruction may carry: local slots, small constants, indexes of interesting globals
	gidx := []int{g.Index("main.g"), g.Index("main.g2"), g.Index("x"), g.Index("y"), g.Index("m"), g.Index("two"), g.Index("main.K"), g.Index("true")}
	g.Set("\"k\"", String("k"))
	gidx = append(gidx, g.Index("\"k\""))
	in := make([]instruction, n)
	for i := range in {
		in[i].Code = verifC02Ops[verifChoice(verifName("op", i), len(verifC02Ops))]
		a := int(verifInt16(verifName("A", i)))
		b := int(verifInt16(verifName("B", i)))
		verifAssume(verifAnd(a >= -3, a <= 300))
		verifAssume(verifAnd(b >= 0, b <= 2))
		in[i].A, in[i].B = reg(a), reg(b)
		in[i].Pos = newPos(g, "main.go", "main.f", 10, 1+i)
	}
	cmp := &compiler{Globals: g, Locals: newLookup(), Optimize: true}
	orig := make([]instruction, n)
	copy(orig, in)
	out := cmp.optimize(in)
	same := len(out) == n
	if same {
		for i := range out {
			if out[i].Code != orig[i].Code || out[i].A != orig[i].A || out[i].B != orig[i].B || out[i].C != orig[i].C {
				same = false
			}
		}
	}
	if same {
		return // nothing rewritten: nothing to prove for this window
	}
	verifReach("C02/L/window-rewritten")
	// give operands that name globals or slots a meaning: slots 0/1, global indexes from the prepared list
	fix := func(w []instruction) {
		for i := range w {
			switch w[i].Code {
			case codeLocalGet, codeLocalSet, codeLocalIncDec, codeFastGetInt, codeFastSetInt, codeFastGet, codeFastSet, codeFastGetAttr, codeFastSetAttr, codeFastCallAttr,
				codeLocalAdd, codeLocalSub, codeLocalMul, codeLocalDiv:
				verifAssume(verifAnd(int(w[i].A) >= 0, int(w[i].A) <= 1))
			}
			switch w[i].Code {
			case codeLocalAdd, codeLocalSub, codeLocalMul, codeLocalDiv:
				verifAssume(verifAnd(int(w[i].B) >= 0, int(w[i].B) <= 1))
			}
		}
	}
	fix(orig)
	// operands that index globals are drawn from the prepared list (one choice shared by the window)
	gi := gidx[verifChoice("gidx", len(gidx))]
	for i := range orig {
		switch orig[i].Code {
		case codeConst, codeGlobalGet, codeGetAttr, codeSetAttr:
			verifAssume(int(orig[i].A) == gi)
		case codeCall:
			verifAssume(verifAnd(int(orig[i].A) >= 0, int(orig[i].A) <= 2))
		case codeJump, codeJumpFalse, codeJumpTrue:
			verifAssume(int(orig[i].A) == 0)
		}
	}
	// re-run the optimizer on the (now constrained) window so both runs use concrete-shaped code
	in2 := make([]instruction, n)
	copy(in2, orig)
	out2 := cmp.optimize(in2)
	// arbitrary machine state: two locals and two operands, of the kinds the rewritten window can meaningfully touch
	group := 0
	for _, ins := range out2 {
		switch ins.Code {
		case codeFastGet, codeFastSet, codeFastGetInt, codeFastSetInt:
			group = 1
		case codeFastGetAttr, codeFastSetAttr, codeFastCallAttr:
			group = 2
		}
	}
	lk := []int{0, 1, 2, 3, 4, 5, 6}
	sk := []int{0, 1, 4, 5}
	if verifCfg("c02_kinds", 0) == 0 { // quick: fewer operand kinds
		lk = []int{0, 1, 4, 5, 6}
		sk = []int{0, 1}
	}
	switch group {
	case 1:
		lk = []int{7, 8, 6, 11}
	case 2:
		lk = []int{9, 11}
	}
	for _, ins := range orig {
		if ins.Code == codeJumpFalse || ins.Code == codeJumpTrue {
			sk = []int{10} // conditional jumps consume a bool
		}
	}
	ks := sk[verifChoice("k_s", len(sk))]
	kinds := []int{lk[verifChoice("k_l0", len(lk))], lk[verifChoice("k_l1", len(lk))], ks, ks}
	st1, p1, line1 := verifC02Run(vm0, orig, kinds)
	st2, p2, line2 := verifC02Run(vm0, out2, kinds)
	verifAssert(p1 == p2, "C02/L/same-outcome")
	if p1 != p2 {
		return
	}
	if p1 {
		verifAssert(line1 == line2, "C02/L/same-failure-line")
		return
	}
	verifAssert(len(st1) == len(st2), "C02/L/same-stack-depth")
	if len(st1) != len(st2) {
		return
	}
	for i := range st1 {
		verifAssert(verifC02SameValue(st1[i], st2[i]), "C02/L/same-stack-and-locals")
	}
}

// verifH_C02_fixpoint: optimize is idempotent on its own output (so re-optimizing an enclosing block cannot change
// the length of an inner block whose length was already used for a jump distance).
func verifH_C02_fixpoint() {
	n := verifCfg("c02_fix_window", 4)
	g := newGlobals()
	in := make([]instruction, n)
	for i := range in {
		in[i].Code = verifC02Ops[verifChoice(verifName("op", i), len(verifC02Ops))]
		in[i].A = reg(int(verifInt16(verifName("A", i))))
		verifAssume(verifAnd(int(in[i].A) >= -3, int(in[i].A) <= 3))
	}
	cmp := &compiler{Globals: g, Locals: newLookup(), Optimize: true}
	once := cmp.optimize(in)
	cp := make([]instruction, len(once))
	copy(cp, once)
	twice := cmp.optimize(cp)
	verifAssert(len(twice) == len(once), "C02/L/fixpoint-length")
	if len(twice) == len(once) {
		for i := range once {
			verifAssert(twice[i].Code == once[i].Code && twice[i].A == once[i].A && twice[i].B == once[i].B && twice[i].C == once[i].C, "C02/L/fixpoint-same")
		}
	}
}

func init() {
	verifHarnesses["verifH_C02_window"] = verifH_C02_window
	verifHarnesses["verifH_C02_fixpoint"] = verifH_C02_fixpoint
}
