//go:build verif

package goatlang

// C03: the public entry points return to the host for any token sequence and any combination of run options.

func verifC03Eval(src string, td, cd, ei bool) string {
	vm := New(WithStdout(&verifRecorder{}))
	var opts []RunOption
	if td {
		opts = append(opts, WithTreeDump(&verifRecorder{}))
	}
	if cd {
		opts = append(opts, WithCodeDump(&verifRecorder{}))
	}
	if ei {
		opts = append(opts, WithEvalImports(map[string]string{}))
	}
	_, err := vm.Eval(verifMkFS(nil), "main.go", src, opts...)
	if err != nil {
		return err.Error()
	}
	// whatever the script defined is callable without taking the host down
	for _, name := range []string{"main.f", "main.a", "main.main"} {
		fn := vm.Get(name)
		if fn.t == TypeFunc && fn.value != nil {
			vm.Call(name, 0)
			vm.Call(name, 1)
			vm.Func(fn, 2, Int32(1))
		}
	}
	return ""
}

func init() {
	verifHarnesses["verifC03Eval"] = func() {
		verifC03Eval(verifSrc, verifBool("td"), verifBool("cd"), verifBool("ei"))
	}
}

var verifSrc string
