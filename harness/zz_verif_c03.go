//go:build verif

package goatlang

// C03: the public entry points return to the host for any token sequence and any combination of run options.

func verifC03Eval(src string, td, cd, ei bool) string {
	vm := New(WithStdout(&verifRecorder{}))
	var opts []RunOption
	if td {
		opts = append(opts, WithTreeDump(&verifRecorder{}))
	}
	if cd {
		opts = append(opts, WithCodeDump(&verifRecorder{}))
	}
	if ei {
		opts = append(opts, WithEvalImports(map[string]string{}))
	}
	_, err := vm.Eval(verifMkFS(nil), "main.go", src, opts...)
	if err != nil {
		return err.Error()
	}
	// whatever the script defined is callable without taking the host down
	for _, name := range []string{"main.f", "main.a", "main.main"} {
		fn := vm.Get(name)
		if fn.t == TypeFunc && fn.value != nil {
			vm.Call(name, 0)
			vm.Call(name, 1)
			vm.Func(fn, 2, Int32(1))
		}
	}
	return ""
}

func init() {
	verifHarnesses["verifC03Eval"] = func() {
		verifText = verifC03Eval(verifSrc, verifBool("td"), verifBool("cd"), verifBool("ei"))
	}
}

var verifSrc, verifText string

// verifC03Load: the source is the only file of package main in an in-memory tree; Load must return.
func verifC03Load(src string, td, cd bool) string {
	vm := New(WithStdout(&verifRecorder{}))
	var opts []RunOption
	if td {
		opts = append(opts, WithTreeDump(&verifRecorder{}))
	}
	if cd {
		opts = append(opts, WithCodeDump(&verifRecorder{}))
	}
	err := vm.Load(verifMkFS(map[string]string{"main/main.go": src}), "main", opts...)
	if err != nil {
		return err.Error()
	}
	for _, name := range []string{"main.f", "main.Main"} {
		fn := vm.Get(name)
		if fn.t == TypeFunc && fn.value != nil {
			vm.Call(name, 0)
		}
	}
	return ""
}

func init() {
	verifHarnesses["verifC03Load"] = func() {
		verifText = verifC03Load(verifSrc, verifBool("td"), verifBool("cd"))
	}
}
