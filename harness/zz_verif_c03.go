//go:build verif

package goatlang

// C03: the public entry points return to the host for any token sequence and any combination of run options.

func verifC03Eval(src string, td, cd, ei bool) string {
	vm := New(WithStdout(&verifRecorder{}))
	var opts []RunOption
	if td {
		opts = append(opts, WithTreeDump(&verifRecorder{}))
	}
	if cd {
		opts = append(opts, WithCodeDump(&verifRecorder{}))
	}
	if ei {
		opts = append(opts, WithEvalImports(map[string]string{}))
	}
	_, err := vm.Eval(verifMkFS(nil), "main.go", src, opts...)
	if err != nil {
		return err.Error()
	}
	// whatever the script defined is callable without taking the host down
	for _, name := range []string{"main.f", "main.a", "main.main"} {
		fn := vm.Get(name)
		if fn.t == TypeFunc && fn.value != nil {
			vm.Call(name, 0)
			vm.Call(name, 1)
			vm.Func(fn, 2, Int32(1))
		}
	}
	// odd uses of Call / Func: names that are no functions or do not exist, function-typed globals that were never
	// assigned, negative and large result counts
	for _, name := range []string{"main.f", "main.x", "main.cb", "main.nosuch", "main.T"} {
		fn := vm.Get(name)
		vm.Call(name, -1)
		vm.Call(name, 5, Int32(1), String("s"))
		vm.Func(fn, -1)
		vm.Func(fn, 0, Nil())
	}
	return ""
}

func init() {
	verifHarnesses["verifC03Eval"] = func() {
		verifText = verifC03Eval(verifSrc, verifBool("td"), verifBool("cd"), verifBool("ei"))
	}
}

var verifSrc, verifText string

// verifC03Load: the source is the only file of package main in an in-memory tree; Load must return.
func verifC03Load(src string, td, cd bool) string {
	vm := New(WithStdout(&verifRecorder{}))
	var opts []RunOption
	if td {
		opts = append(opts, WithTreeDump(&verifRecorder{}))
	}
	if cd {
		opts = append(opts, WithCodeDump(&verifRecorder{}))
	}
	err := vm.Load(verifMkFS(map[string]string{"main/main.go": src}), "main", opts...)
	if err != nil {
		return err.Error()
	}
	for _, name := range []string{"main.f", "main.Main"} {
		fn := vm.Get(name)
		if fn.t == TypeFunc && fn.value != nil {
			vm.Call(name, 0)
		}
	}
	return ""
}

func init() {
	verifHarnesses["verifC03Load"] = func() {
		verifText = verifC03Load(verifSrc, verifBool("td"), verifBool("cd"))
	}
}

// verifH_C03_depth_guard (shape L, one inductive step): the recursive descent re-enters parser.Expression for every
// level of nesting (Statement, Block and every Nud/Led recurse through it) and Expression counts its active frames in
// parser.Depth.  From an ARBITRARY depth d (symbolic), parsing one more parenthesised operand must either come back
// with the counter restored to d or refuse with a parse error — and it must refuse once d is beyond the bound
// (cfg c03_depth_bound), otherwise input nesting alone decides how much of the host's stack is used (a fatal stack
// overflow cannot be recovered by Eval).
func verifH_C03_depth_guard() {
	d := int(verifInt32("d"))
	verifAssume(d >= 0)
	srcs := []string{"(1)", "-(1)", "x[0]", "f(1)", "[]int{1}"}
	src := srcs[verifChoice("form", len(srcs))]
	toks, err := tokenize("main.go", src)
	if err != nil {
		verifAssert(false, "C03/depth-guard/tokenize")
		return
	}
	p := &parser{Tokens: toks, Depth: d}
	p.Next()
	refused := verifCatch(func() { p.Expression(0) })
	if !refused {
		verifAssert(p.Depth == d, "C03/depth-guard/counter-restored")
	}
	if d >= verifCfg("c03_depth_bound", 4000000) {
		verifAssert(refused, "C03/depth-guard/recursion-refused-beyond-the-bound")
	} else if d < 1000 {
		verifAssert(!refused, "C03/depth-guard/ordinary-nesting-accepted")
	}
}

// verifH_C03_type_depth_guard: the same inductive step for type expressions ([]T, *T, map[K]V nest through getType).
func verifH_C03_type_depth_guard() {
	d := int(verifInt32("d"))
	verifAssume(d >= 0)
	srcs := []string{"[]int", "*int", "map[string][]int", "[][]*T"}
	src := srcs[verifChoice("form", len(srcs))]
	toks, err := tokenize("main.go", src)
	if err != nil {
		verifAssert(false, "C03/type-depth-guard/tokenize")
		return
	}
	p := &parser{Tokens: toks, Depth: d}
	p.Next()
	refused := verifCatch(func() { getType(p) })
	if !refused {
		verifAssert(p.Depth == d, "C03/type-depth-guard/counter-restored")
	}
	if d >= verifCfg("c03_depth_bound", 4000000) {
		verifAssert(refused, "C03/type-depth-guard/recursion-refused-beyond-the-bound")
	} else if d < 1000 {
		verifAssert(!refused, "C03/type-depth-guard/ordinary-nesting-accepted")
	}
}

func init() {
	verifHarnesses["verifH_C03_depth_guard"] = verifH_C03_depth_guard
	verifHarnesses["verifH_C03_type_depth_guard"] = verifH_C03_type_depth_guard
}

// verifH_C03_trees: Load / Eval over in-memory trees with awkward directory contents; the entry point must return
// (nil or an error with a stage prefix) — in particular the package search must terminate.
func verifH_C03_trees() {
	lib := "package lib\n\nfunc F() int {\n\treturn 1\n}\n"
	test := "package lib\n\nfunc T() int {\n\treturn 2\n}\n"
	mainSrc := "package main\n\nimport \"lib\"\n\nfunc Main() int {\n\treturn lib.F()\n}\n"
	trees := []map[string]string{
		{"main/main.go": mainSrc, "lib/lib_test.go": test},                                         // imported dir holds only a _test.go file
		{"main/main.go": mainSrc, "vendor/lib/x_test.go": test, "lib/lib.go": lib},                  // vendor/ candidate holds only a test file, the real one follows
		{"main/main.go": mainSrc, "lib/readme.txt": "hello"},                                       // no .go file at all
		{"main/main.go": mainSrc, "lib/lib.go": "//go:build ignore\n\n" + lib},                     // only a build-excluded file
		{"main/main.go": mainSrc, "lib/lib.go": "func F() int {\n\treturn 1\n}\n"},                 // no package clause
		{"main/main.go": mainSrc, "lib/lib.go": "package other\n\nfunc F() int {\n\treturn 1\n}\n"}, // package name differs from the directory
		{"main/main.go": mainSrc, "lib": "package lib\n"},                                          // the import path names a file
		{"main/main_test.go": mainSrc},                                                            // the Load target holds only a test file
		{"main/main.go": "package main\n\nimport \"a/b/lib\"\n\nfunc Main() int {\n\treturn lib.F()\n}\n", "b/lib/lib_test.go": test, "lib/lib.go": lib}, // shortened path candidates
		{"main/main.go": "// header\n\n/* never closed\npackage main\n"},                                    // the Load target starts with an unterminated block comment
		{"main/main.go": "/*\n", "main/z.go": mainSrc, "lib/lib.go": lib},                                  // a file that is nothing but the start of a comment
		{"main/main.go": mainSrc, "lib/lib.go": "\n\n// x\n/* open\n\n", "lib/ok.go": lib},                  // the same inside an imported package
		{"main/main.go": "//go:build goat && (\n\npackage main\n"},                                        // malformed constraint expression
		{"main/main.go": mainSrc, "lib/lib.go": lib}, // control: loads
	}
	k := verifChoice("tree", len(trees))
	viaEval := verifBool("via_eval")
	vm := New(WithStdout(&verifRecorder{}))
	var err error
	if viaEval {
		_, err = vm.Eval(verifMkFS(trees[k]), "x.go", "import \"lib\"\nlib.F()\n")
	} else {
		err = vm.Load(verifMkFS(trees[k]), "main")
	}
	verifReach("C03/trees/returned")
	if err != nil {
		verifAssert(verifC03HasStage(err.Error()), "C03/trees/error-has-a-stage-prefix")
	} else if k == len(trees)-1 && !viaEval {
		rets, cerr := vm.Call("main.Main", 1)
		verifAssert(cerr == nil && len(rets) == 1 && rets[0].num == 1, "C03/trees/control-loads-and-runs")
	}
}

func verifC03HasStage(s string) bool {
	for _, p := range []string{"error in tokenize", "error in parse", "error in load", "error in compile", "error in run"} {
		if len(s) >= len(p) && s[:len(p)] == p {
			return true
		}
	}
	return false
}

func init() { verifHarnesses["verifH_C03_trees"] = verifH_C03_trees }
