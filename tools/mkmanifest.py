#!/usr/bin/env python3
# Regenerates /verif/MANIFEST.json from the table below.
import json
ALL=["C%02d"%i for i in range(1,21)]
claimed={
 "C04": dict(cat="model_checking", ref="DESIGN.md §4 C04",
   text="Symbolic execution (go/ssa → SMT) of the real Value.op*, assign, convert and the INCDEC/LOCALINCDEC/NEGATE/BITCOMPLEMENT/CAST/CONVERT/GT/GTE arms of VM.exec with all operand values symbolic (every int8/uint8/int32/uint32 pair, every float64 pair): z3 decides that result type and value equal Go's fixed-width semantics; counterexamples are replayed natively.",
   note="Bounded: one operator application per harness (loop-free), operands of equal type plus untyped-constant operands representable in the type; float→int conversions claimed only for in-range operands (Go leaves the rest implementation-defined). Trusted: go/ssa, the engine's SSA semantics and float↔int normalisation rules (lemma-checked by selftest), z3.",
   tech="symbolic execution of Go SSA + SMT (z3 QF_BV/FP), native replay of models"),
}

TV_NOTE="Reference = the identical program text type-checked by go/types and lowered by go/ssa under GOARCH=386 sizes (int=int32), interpreted by the same engine; goat side = real tokenize(native, delegated)/parse/compile/exec interpreted symbolically. Counterexamples are replayed natively (goat: real build; Go: GOARCH=386 binary). Trusted: go/ssa, the engine's SSA semantics, z3, the Go toolchain."
claimed["C05"]=dict(cat="translation_validation", ref="DESIGN.md §4 C05",
   text="Every well-typed expression tree with 1–2 binary operators (18 operators, optional unary -,^,! and both printings: Go-minimal parentheses and fully parenthesised; samples with 3–4 operators) is parsed/compiled/run by goatlang's real code in the engine and compared with Go's grouping for ALL int32/bool operand values: z3 decides result equality and equal panic behaviour.",
   note=TV_NOTE+" Bounded: operators ≤2 exhaustive (quick), ≤3 sampled; operands are variables only.", tech="symbolic execution of Go SSA + SMT equivalence against go/ssa(386) reference; native replay")
claimed["C06"]=dict(cat="translation_validation", ref="DESIGN.md §4 C06",
   text="Control skeletons (for 3-clause/cond/infinite, range value/key, switch tagged/tagless with default first/middle/last/absent, if/else-if/else; depth 1–2 exhaustive over kinds × branch × {break, continue, return, conditional break/continue}, depth 3 sampled) run on both sides with symbolic selectors and loop bound: every feasible combination of branch outcomes is explored and the trace output and result compared.",
   note=TV_NOTE+" Bounded: loop bound n ≤ 2, nesting depth ≤ 3, step bound per path (exceeding = unwind, not success).", tech="symbolic execution of Go SSA + SMT path exploration against go/ssa(386) reference; native replay")
claimed["C08"]=dict(cat="translation_validation", ref="DESIGN.md §4 C08",
   text="Seeded scope programs redeclare x,y,z at every block-boundary kind (body, if-init, then/else, for-init, loop body, range key/value, case body; nesting ≤3; globals and parameters shadowed) with every initialiser a distinct symbolic input; a read resolving to the wrong binding yields a different term and the solver produces the distinguishing inputs.",
   note=TV_NOTE+" Bounded: 300 (quick) / 4000 (thorough) seeded programs, loops of 2 iterations.", tech="symbolic execution of Go SSA with symbolic taint labels + SMT equivalence against go/ssa(386) reference; native replay")
reasons={}
checks=[]
for pid in ALL:
    if pid in claimed:
        c=claimed[pid]
        checks.append({
          "property_id":pid,
          "quick_cmd":"./check %s --tier quick"%pid,
          "thorough_cmd":"./check %s --tier thorough"%pid,
          "evidence_file":"/verif/evidence/%s.json"%pid,
          "replay_cmd_template":"./check replay {path}",
          "engine":"gosx",
          "level_claimed":{"category":c["cat"],"text":c["text"],"design_ref":c["ref"]},
          "level_note":c["note"],
          "technique":c["tech"],
        })
na=[{"property_id":p,"reason":reasons.get(p,"solver-based check not built yet (work in progress; see DESIGN.md §4 for the planned harness)")} for p in ALL if p not in claimed]
m={
 "version":1,
 "setup_cmd":"cd /verif/engine && GOFLAGS=-mod=mod GOPROXY=off GOSUMDB=off GOTOOLCHAIN=local go build -o /verif/bin/gosx ./cmd/gosx",
 "hooks":{"guard":"verif","enable":"harness files carry //go:build verif and are injected into package goatlang through a go build/go packages overlay (-tags verif -overlay); nothing is committed to /repo",
          "baseline_off_cmd":"cd /repo && GOFLAGS=-mod=mod GOPROXY=off go test -vet=off -count=1 ./...","source_commits":[],"add_only":True},
 "engines":[{"name":"gosx","path":"/verif/engine","serves_properties":sorted(claimed),"kind_free_text":"symbolic executor for Go SSA (x/tools go/ssa) with concrete heap and symbolic scalars; z3/cvc5 as deciders; native replay of counterexamples"}],
 "checks":checks,
 "not_applicable":na,
 "notes":"All checks rebuild their encoding from /repo's working tree on every run. Known/fixed findings: /verif/known_findings.json.",
}
json.dump(m,open("/verif/MANIFEST.json","w"),indent=1)
print("claimed",sorted(claimed))
