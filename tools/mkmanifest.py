#!/usr/bin/env python3
# Regenerates /verif/MANIFEST.json from the table below.
import json
ALL=["C%02d"%i for i in range(1,21)]
claimed={
 "C04": dict(cat="model_checking", ref="DESIGN.md §4 C04",
   text="Symbolic execution (go/ssa → SMT) of the real Value.op*, assign, convert and the INCDEC/LOCALINCDEC/NEGATE/BITCOMPLEMENT/CAST/CONVERT/GT/GTE arms of VM.exec with all operand values symbolic (every int8/uint8/int32/uint32 pair, every float64 pair): z3 decides that result type and value equal Go's fixed-width semantics; counterexamples are replayed natively.",
   note="Bounded: one operator application per harness (loop-free), operands of equal type plus untyped-constant operands representable in the type; float→int conversions claimed only for in-range operands (Go leaves the rest implementation-defined). Trusted: go/ssa, the engine's SSA semantics and float↔int normalisation rules (lemma-checked by selftest), z3.",
   tech="symbolic execution of Go SSA + SMT (z3 QF_BV/FP), native replay of models"),
}

TV_NOTE="Reference = the identical program text type-checked by go/types and lowered by go/ssa under GOARCH=386 sizes (int=int32), interpreted by the same engine; goat side = real tokenize(native, delegated)/parse/compile/exec interpreted symbolically. Counterexamples are replayed natively (goat: real build; Go: GOARCH=386 binary). Trusted: go/ssa, the engine's SSA semantics, z3, the Go toolchain."
claimed["C05"]=dict(cat="translation_validation", ref="DESIGN.md §4 C05",
   text="Every well-typed expression tree with 1–2 binary operators (18 operators, optional unary -,^,! and both printings: Go-minimal parentheses and fully parenthesised; samples with 3–4 operators) is parsed/compiled/run by goatlang's real code in the engine and compared with Go's grouping for ALL int32/bool operand values: z3 decides result equality and equal panic behaviour.",
   note=TV_NOTE+" Bounded: operators ≤2 exhaustive (quick), ≤3 sampled; operands are variables only.", tech="symbolic execution of Go SSA + SMT equivalence against go/ssa(386) reference; native replay")
claimed["C06"]=dict(cat="translation_validation", ref="DESIGN.md §4 C06",
   text="Control skeletons (for 3-clause/cond/infinite, range value/key, switch tagged/tagless with default first/middle/last/absent, if/else-if/else; depth 1–2 exhaustive over kinds × branch × {break, continue, return, conditional break/continue}, depth 3 sampled) run on both sides with symbolic selectors and loop bound: every feasible combination of branch outcomes is explored and the trace output and result compared.",
   note=TV_NOTE+" Bounded: loop bound n ≤ 2, nesting depth ≤ 3, step bound per path (exceeding = unwind, not success).", tech="symbolic execution of Go SSA + SMT path exploration against go/ssa(386) reference; native replay")
claimed["C08"]=dict(cat="translation_validation", ref="DESIGN.md §4 C08",
   text="Seeded scope programs redeclare x,y,z at every block-boundary kind (body, if-init, then/else, for-init, loop body, range key/value, case body; nesting ≤3; globals and parameters shadowed) with every initialiser a distinct symbolic input; a read resolving to the wrong binding yields a different term and the solver produces the distinguishing inputs.",
   note=TV_NOTE+" Bounded: 300 (quick) / 4000 (thorough) seeded programs, loops of 2 iterations.", tech="symbolic execution of Go SSA with symbolic taint labels + SMT equivalence against go/ssa(386) reference; native replay")

claimed["C02"]=dict(cat="translation_validation", ref="DESIGN.md §4 C02",
   text="Each corpus program is compiled and run twice by goatlang's real code inside the engine — optimizer on and off — from identical symbolic inputs; the solver decides equality of output, result count/dynamic type/value/rendering, success vs failure and the failure's file:line for all inputs. Corpora: typed-operation programs hitting every fused opcode with every numeric type, the C05/C06/C08/C09/C11/C12/C13 generators, and every string literal of the repo's *_test.go files.",
   note="Both sides are goatlang (mode on vs off); the off pipeline is an in-package replica of Eval with compiler.Optimize=false. Bounded by the corpora and the per-path step bound. Counterexamples are replayed natively in both modes. Trusted: go/ssa, engine semantics, z3.", tech="symbolic execution of Go SSA, self-composition (optimizer on vs off) + SMT; native replay")
claimed["C09"]=dict(cat="translation_validation", ref="DESIGN.md §4 C09",
   text="Seeded call programs (callee with 0–5 parameters over int/byte/int8/uint32/float64/bool/string/[]int/*T/func, variadic tails with 0–3 extras or spread, 0–3 results; ten call forms incl. method value, func-typed variable/field/parameter, func literal, return f()) with distinct symbolic argument labels, untyped constants and nil; squares of parameters/results reveal their static types; recursion to concrete depths with symbolic accumulator.",
   note=TV_NOTE+" Bounded: 400 (quick)/5000 (thorough) programs; recursion depth ≤300 quick, ≤3000 thorough. Wrong-arity calls are not valid Go and are covered by the C19 Call/Func lemmas instead.", tech="symbolic execution of Go SSA with symbolic labels + SMT equivalence against go/ssa(386) reference; native replay")
claimed["C10"]=dict(cat="model_checking", ref="DESIGN.md §4 C10",
   text="Host-API histories (Set/Delete/Get/Range per step chosen symbolically, keys symbolic: int32, float64 non-NaN, bool, strings from a small set) against a Go map model, a full Range after the history yielding each live key exactly once, nil-map reads, and mutation-during-range scenarios checked against the spec's guarantees with maps.Keys returning every permutation; plus script-level map programs compared with Go through order-independent aggregates.",
   note="Bounded: history length 4 (quick)/6 (thorough); maps ≤ 5 live keys; permutations for ≤4 keys. Trusted: go/ssa, engine map semantics (ordered association list with solver-decided key aliasing), z3; replay natively.", tech="symbolic execution of Go SSA (bounded model checking of operation histories with symbolic keys) + SMT; native replay")
claimed["C11"]=dict(cat="translation_validation", ref="DESIGN.md §4 C11",
   text="Seeded histories over three aliasing []int variables (make, literal, sub-slice incl. up to a known capacity, element write, append in place / reallocating / nil receiver / spread, copy, nil, range) with all variables printed after each step and symbolic element values; every 4th program ends with read/write/re-slice at unconstrained symbolic indexes (out of range ⇒ error on both sides).",
   note=TV_NOTE+" Only growth-policy-independent steps are generated (capacity tracked by the generator); both sides use Go's real growslice formula. Bounded: 300/5000 programs of ≤6/≤10 steps.", tech="symbolic execution of Go SSA + SMT equivalence against go/ssa(386) reference; native replay")
claimed["C12"]=dict(cat="model_checking", ref="DESIGN.md §4 C12",
   text="Inductive step on the real robin-hood table: from an ARBITRARY size-16 table (every distance/key/value cell symbolic) satisfying the representation invariant I1–I5, one Set/Assign/Get/Delete/Copy with an arbitrary key re-establishes the invariant and changes the abstract contents exactly as a map would — one step covers histories of any length within the bound; plus growth/shrink threshold histories, collision histories, and script-level struct programs with 0..49 (thorough ..200) fields compared with Go.",
   note="Bounded: table size 16 with ≤3 (quick)/≤8 (thorough) live entries in the arbitrary pre-state; resize only via the concrete threshold histories (16→32→64 and back). A counterexample from an unreachable pre-state would mean the invariant is too weak (none occurs). Trusted: go/ssa, engine, z3 (QF_BV tactic).", tech="symbolic execution of Go SSA from an arbitrary invariant-satisfying state (inductive step) + SMT (z3 qfbv); native replay")
claimed["C13"]=dict(cat="translation_validation", ref="DESIGN.md §4 C13",
   text="Operation templates (len, index incl. static type, slice, range offsets, []byte/string/rune conversions, six comparisons, concatenation with operands re-read) over strings whose BYTES are symbolic (every length 0..3 quick, 0..5 thorough — all UTF-8 width classes, truncated and invalid sequences) with symbolic positions; plus string- and character-literal spellings decided against Go's value of the same literal.",
   note=TV_NOTE+" Bounded: string length ≤3/≤5, positions in [-2,8]; literal list enumerated (tokenizer delegated natively).", tech="symbolic execution of Go SSA with symbolic-content strings (UTF-8 decoder modelled, forks per byte class) + SMT equivalence against go/ssa(386) reference; native replay")
claimed["C19"]=dict(cat="model_checking", ref="DESIGN.md §4 C19",
   text="Constructor/accessor round trips for ALL values of each scalar type (solver-decided), the six NewFunc adapter forms × arity 0..6 × results 0..4 (variadic: fixed 0..3 + extras 0..3) called from scripts with other operands on the stack (argument/result labels symbolic), Call/Func with every requested result count and wrong arities, and native-panic / nested-call failures surfacing as the outer error.",
   note="Bounded by the arity/result tables; one call per harness. Trusted: go/ssa, engine (exact growslice model so stack reallocation aliasing is faithful), z3; replay natively.", tech="symbolic execution of Go SSA (lemma harnesses with symbolic labels) + SMT; native replay")

claimed["C07"]=dict(cat="model_checking", ref="DESIGN.md §4 C07",
   text="Monitored execution: while goatlang's real exec runs symbolically on every feasible path of each program (statement-form list, C06 skeletons, C08/C09/C11/C12 corpora; inputs symbolic), invariants are evaluated at the head of every dispatch-loop iteration: same operand depth on every visit of a pc on every path and never negative, pc inside the function, `$` operands below the slot count, each instruction's stack effect (calls: −consumed +requested), RETURN k with exactly k values, nothing residual when a body falls off its end, caller locals identical across calls; results are also compared with Go.",
   note="Covers feasible paths only (CFG paths no input can take are not covered). Per-opcode stack effects are the monitor's specification, read off do.go. Monitor violations are confirmed by re-executing the real code with the concrete inputs in the engine (the stack discipline is not observable natively); result/output disagreements are replayed natively. Trusted: go/ssa, engine, z3.", tech="symbolic execution of Go SSA with VM-state monitors at every dispatch step + SMT path exploration")

claimed["C01"]=dict(cat="translation_validation", ref="DESIGN.md §4 C01",
   text="Seeded whole programs — composite programs combining 3–6 of 22 feature snippets (struct-in-map compound assignment in nested loops, interfaces, slices of slices, byte wrap-around, math/strconv/strings/fmt/errors calls, func values in maps, variadics, recursion, …) plus re-seeded samples of the C05–C14 generators — are run by goatlang's real code in the engine and compared with Go on every feasible path with int/byte/float64/bool inputs symbolic: output text, results and failure outcome.",
   note=TV_NOTE+" Bounded: 60+~130 programs quick, 800+~1600 thorough. Stdlib shims are called natively on concrete arguments only (a few math functions and strconv.Itoa are modelled symbolically). The Go reference is single-package (multi-package loading: C15/C16).", tech="symbolic execution of Go SSA + SMT equivalence against go/ssa(386) reference; native replay")
claimed["C03"]=dict(cat="model_checking", ref="DESIGN.md §4 C03",
   text="The real Eval (parse, loadImports, compile, run, treeDump, codeDump) and Call/Func on what it defined run in the engine on ARBITRARY token sequences: 13 concrete contexts + 0–2 (thorough 3) symbolic tokens whose Symbol ranges over the real symbols table (+ scanner symbols missing from it) and whose Text ranges over per-class sets incl. malformed literals; run options are symbolic booleans. Asserted: no Go panic escapes, every error carries a stage prefix, the front end terminates within the step bound.",
   note="The scanner itself (text/scanner) and fs.Glob over arbitrary trees are not encoded; every reported sequence is rendered as text and replayed through the real tokenizer natively. Tokens are concretised lazily when first read, so the exploration covers every distinct consumed prefix; with a finite alphabet this is exhaustive enumeration driven by the symbolic executor — the solver's role is feasibility/bookkeeping. Script non-termination in the run phase is excepted (counted as unwind).", tech="symbolic execution of Go SSA with lazily concretised symbolic token lists (finite-domain) + SMT; native replay")
claimed["C14"]=dict(cat="translation_validation", ref="DESIGN.md §4 C14",
   text="Print templates (Println/Print/Sprint of every scalar kind, slices and single-entry maps as element/value/key, multi-operand Println, builtin println, nesting depth 2–5, empty/nil containers, float literals at the %v thresholds, NaN/±Inf/−0, integer bounds) with symbolic leaves compared with Go: integers as decimal renderings of the 64-bit value, floats as 'the same float64 reaches the same formatter'; harnesses for &{Field:value} struct rendering in declaration order and for termination of String()/Sprint/Println on cyclic object graphs (self, pair, triple; through pointers, slices, maps).",
   note=TV_NOTE+" Digit generation of fmt/strconv is uninterpreted (injective renderers). Known findings (listed in known_findings.json, pinned by the repo's own tests): containers nested ≥3 levels print [...].", tech="symbolic execution of Go SSA with a segment model of fmt output + SMT equivalence against go/ssa(386) reference; native replay")
claimed["C15"]=dict(cat="model_checking", ref="DESIGN.md §4 C15",
   text="The real Load on an in-memory tree for EVERY import relation over 2 and 3 (thorough 4) packages plus main (one symbolic boolean per ordered pair) × 7 file layouts (two files, vendor/, shortened path, vendor+long path, single file, _test.go + //go:build ignore/!goat/goat files, conflicting package clause): acyclic ⇒ each reachable package's top-level code and init run exactly once, dependencies first, unreachable packages not at all, ignored files never; cyclic or conflicting ⇒ an error, never a host panic.",
   note="All branching is on the input bits, so the exploration enumerates the graphs (the solver contributes bookkeeping). tokenize and build-constraint evaluation are delegated natively; io/fs is modelled over testing/fstest.MapFS (Glob of one directory level, ReadFile). Bounded: ≤3 packages quick, ≤4 thorough.", tech="symbolic execution of Go SSA over symbolic import relations + SMT; native replay")
claimed["C16"]=dict(cat="model_checking", ref="DESIGN.md §4 C16",
   text="Lemma on the real treeSort for every list of 0..5 (thorough 6) top-level nodes over 8 node kinds: result is a permutation, hoistable kinds first, init last, equal priorities keep source order (sort.SliceStable modelled as stable insertion sort calling the real less). Plus seeded (permutation of 6 mutually referring hoistable declarations × partition into 1–3 files) layouts of one package loaded with the real Load and compared with Go with symbolic inputs.",
   note=TV_NOTE+" Constants, var initialisers and init keep source order in one file, as the property states. Bounded: list length ≤5/6; 60/1200 layouts.", tech="symbolic execution of Go SSA (lemma over symbolic node kinds; equivalence against go/ssa(386) reference) + SMT; native replay")
claimed["C17"]=dict(cat="model_checking", ref="DESIGN.md §4 C17",
   text="Histories on one VM: initial Load of one of 3 versions, then 3 (thorough 5) actions each chosen symbolically among reload (any version incl. the same), entry-point call, capture/call of a function value, instance creation, capture/call of a bound method and a method on the old instance, mutation of an initialised package variable; call arguments symbolic. Asserted per call: the current version's code runs (also through captured values), uninitialised package variables keep their value, initialised ones are re-initialised.",
   note="The expected values are the harness's arithmetic model of the property text (32-bit wrap-around), not a Go lowering; versions are 3 fixed texts differing in function/method bodies and an initialiser. Trusted: go/ssa, engine, z3; replay natively.", tech="symbolic execution of Go SSA (bounded model checking of load/call histories) + SMT; native replay")
claimed["C18"]=dict(cat="translation_validation", ref="DESIGN.md §4 C18",
   text="Seeded top-level sequences of 2..4 (thorough 6) statements with two symbolic pre-set globals; for EVERY non-trivial way of cutting the sequence into consecutive Eval calls on one VM (shared WithEvalImports map) the output, the last Eval's values (type, number, rendering) and all declared globals are compared with one Eval of the whole text — both sides goatlang's real Eval in the engine.",
   note="Both sides are goatlang. Bounded: 120/1000 sequences, all 2^(n-1)-1 cuts each. Only the final statement is an expression. Trusted: go/ssa, engine, z3; replay natively.", tech="symbolic execution of Go SSA, self-composition (whole vs incremental) + SMT; native replay")
claimed["C20"]=dict(cat="translation_validation", ref="DESIGN.md §4 C20",
   text="Call chains (depth 1,2,4,7; thorough up to 30) through functions and methods in six variants (plain, after a loop, after a switch, call as statement, call spread over lines in two ways) with seven fault kinds planted at generator-known lines in every level; symbolic selectors decide which fault fires at which depth. The real error text is checked in three pipelines (public Eval, optimizer on, off): first line = function and line of the fault, then one line per active call innermost first with the call's line, and the (function, line) sequence identical on/off.",
   note="Expected lines come from the generator. Columns and opcode mnemonics legitimately differ between modes and are not compared. Trusted: go/ssa, engine, z3; replay natively in all three pipelines.", tech="symbolic execution of Go SSA with symbolic fault selectors + SMT; native replay")
reasons={}
checks=[]
for pid in ALL:
    if pid in claimed:
        c=claimed[pid]
        checks.append({
          "property_id":pid,
          "quick_cmd":"./check %s --tier quick"%pid,
          "thorough_cmd":"./check %s --tier thorough"%pid,
          "evidence_file":"/verif/evidence/%s.json"%pid,
          "replay_cmd_template":"./check replay {path}",
          "engine":"gosx",
          "level_claimed":{"category":c["cat"],"text":c["text"],"design_ref":c["ref"]},
          "level_note":c["note"],
          "technique":c["tech"],
        })
na=[{"property_id":p,"reason":reasons.get(p,"solver-based check not built yet (work in progress; see DESIGN.md §4 for the planned harness)")} for p in ALL if p not in claimed]
m={
 "version":1,
 "setup_cmd":"cd /verif/engine && GOFLAGS=-mod=mod GOPROXY=off GOSUMDB=off GOTOOLCHAIN=local go build -o /verif/bin/gosx ./cmd/gosx && /verif/bin/gosx selftest",
 "hooks":{"guard":"verif","enable":"harness files carry //go:build verif and are injected into package goatlang through a go build/go packages overlay (-tags verif -overlay); nothing is committed to /repo",
          "baseline_off_cmd":"cd /repo && GOFLAGS=-mod=mod GOPROXY=off go test -vet=off -count=1 ./...","source_commits":[],"add_only":True},
 "engines":[{"name":"gosx","path":"/verif/engine","serves_properties":sorted(claimed),"kind_free_text":"symbolic executor for Go SSA (x/tools go/ssa) with concrete heap and symbolic scalars; z3/cvc5 as deciders; native replay of counterexamples"}],
 "checks":checks,
 "not_applicable":na,
 "notes":"All checks rebuild their encoding from /repo's working tree on every run. Known/fixed findings: /verif/known_findings.json.",
}
json.dump(m,open("/verif/MANIFEST.json","w"),indent=1)
print("claimed",sorted(claimed))
