#!/bin/bash
# tools/seedcheck.sh <PROP> <agent-worktree|-> [checks...]  — confirm a seeded change and run checks against it.
#   "-" re-runs the stored seed /verif/seeded/$SEEDNAME against the current /repo HEAD.
# The seeded change is applied in a scratch worktree of /repo (never to /repo itself); the checks are pointed at
# that worktree with GOSX_REPO and write their evidence/replays to a scratch directory (GOSX_OUT), so this script
# can run next to other work.  Both scratch directories are removed at the end.
export GOFLAGS=-mod=mod GOPROXY=off GOSUMDB=off GOTOOLCHAIN=local
P=$1; WT=$2; shift 2; CHECKS=${@:-$P}
NAME=${SEEDNAME:-$P}
D=/verif/seeded/$NAME
mkdir -p $D
if [ "$WT" != "-" ]; then
cp $WT/_seed/patch.diff $D/patch.diff
cp $WT/_seed/demo_test.go $D/demo_test.go 2>/dev/null
cp $WT/_seed/NOTES.md $D/NOTES.md 2>/dev/null
fi
C=/tmp/confirm_$NAME
O=/tmp/seedout_$NAME
rm -rf $O; mkdir -p $O
git -C /repo worktree remove --force $C 2>/dev/null
git -C /repo worktree add -q --detach $C HEAD
cd $C
cp $D/demo_test.go ./zz_seed_demo_test.go
CLEAN=$(go test -vet=off -count=1 -run TestSeedDemo . 2>&1 | tail -1)
git apply $D/patch.diff || { echo "PATCH DOES NOT APPLY"; cd /verif; git -C /repo worktree remove --force $C; exit 1; }
rm -f zz_seed_demo_test.go
SUITE=$(go test -vet=off -count=1 ./... 2>&1 | grep -v "no test files" | tail -2 | tr '\n' ' ')
cp $D/demo_test.go ./zz_seed_demo_test.go
SEEDED=$(go test -vet=off -count=1 -run TestSeedDemo . 2>&1 | tail -1)
rm -f zz_seed_demo_test.go
cd /verif
echo "demo on clean tree: $CLEAN"
echo "suite with patch:   $SUITE"
echo "demo with patch:    $SEEDED"
RES=""
for c in $CHECKS; do
  OUT=$(GOSX_REPO=$C GOSX_OUT=$O timeout 3600 ./check $c 2>&1)
  RC=$?
  NV=$(echo "$OUT" | grep -c "^VIOLATION")
  FIRST=$(echo "$OUT" | grep -A1 "^VIOLATION" | head -2 | tail -1 | cut -c1-300)
  echo "check $c: exit=$RC violations=$NV :: $FIRST"
  RES="$RES{\"check\":\"$c\",\"exit\":$RC,\"violations\":$NV},"
done
git -C /repo worktree remove --force $C
rm -rf $O
printf '%s\n' "$CLEAN" > $D/.clean; printf '%s\n' "$SUITE" > $D/.suite; printf '%s\n' "$SEEDED" > $D/.seeded; printf '[%s]' "${RES%,}" > $D/.res
git -C /repo rev-parse --short HEAD > $D/.head
python3 - "$P" "$NAME" "$D" <<'PY'
import json,sys,os
P,NAME,D=sys.argv[1:4]
rd=lambda f: open(os.path.join(D,f)).read().strip()
hist=[]
mp=os.path.join(D,"meta.json")
if os.path.exists(mp):
    try:
        old=json.load(open(mp)); hist=old.get("detection_history",[])
        if old.get("checks_run"): hist.append({"checks_run":old["checks_run"],"repo_head":old.get("repo_head",""),"note":old.get("note","earlier run")})
    except Exception: pass
meta={"detection_history":hist,"property":P,"name":NAME,"repo_head":rd(".head"),"demo_on_clean_tree":rd(".clean"),"existing_suite_with_patch":rd(".suite"),"demo_with_patch":rd(".seeded"),
 "checks_run":json.loads(rd(".res")),"what_it_needs":open(os.path.join(D,"NOTES.md")).read() if os.path.exists(os.path.join(D,"NOTES.md")) else ""}
json.dump(meta,open(os.path.join(D,"meta.json"),"w"),indent=1)
for f in (".clean",".suite",".seeded",".res",".head"): os.remove(os.path.join(D,f))
print("meta written:",[ (c["check"],c["exit"],c["violations"]) for c in meta["checks_run"]])
PY
