#!/bin/bash
# tools/seedcheck.sh <PROP> <agent-worktree> [checks...]  — confirm a seeded change and run checks against it
export GOFLAGS=-mod=mod GOPROXY=off GOSUMDB=off GOTOOLCHAIN=local
P=$1; WT=$2; shift 2; CHECKS=${@:-$P}
NAME=${SEEDNAME:-$P}
D=/verif/seeded/$NAME
mkdir -p $D
cp $WT/_seed/patch.diff $D/patch.diff
cp $WT/_seed/demo_test.go $D/demo_test.go 2>/dev/null
cp $WT/_seed/NOTES.md $D/NOTES.md 2>/dev/null
C=/tmp/confirm_$NAME
git -C /repo worktree remove --force $C 2>/dev/null
git -C /repo worktree add -q --detach $C HEAD
cd $C
cp $D/demo_test.go ./zz_seed_demo_test.go
CLEAN=$(go test -vet=off -count=1 -run TestSeedDemo . 2>&1 | tail -1)
git apply $D/patch.diff || { echo "PATCH DOES NOT APPLY"; }
rm -f zz_seed_demo_test.go
SUITE=$(go test -vet=off -count=1 ./... 2>&1 | grep -v "no test files" | tail -2 | tr '\n' ' ')
cp $D/demo_test.go ./zz_seed_demo_test.go
SEEDED=$(go test -vet=off -count=1 -run TestSeedDemo . 2>&1 | tail -1)
cd /verif
git -C /repo worktree remove --force $C
echo "demo on clean tree: $CLEAN"
echo "suite with patch:   $SUITE"
echo "demo with patch:    $SEEDED"
git -C /repo apply $D/patch.diff || exit 1
RES=""
for c in $CHECKS; do
  OUT=$(timeout 1800 ./check $c 2>&1)
  RC=$?
  NV=$(echo "$OUT" | grep -c "^VIOLATION")
  FIRST=$(echo "$OUT" | grep -A1 "^VIOLATION" | head -2 | tail -1 | cut -c1-300)
  echo "check $c: exit=$RC violations=$NV :: $FIRST"
  RES="$RES{\"check\":\"$c\",\"exit\":$RC,\"violations\":$NV},"
done
git -C /repo checkout -- .
git -C /repo status --short | head -3
printf '%s\n' "$CLEAN" > $D/.clean; printf '%s\n' "$SUITE" > $D/.suite; printf '%s\n' "$SEEDED" > $D/.seeded; printf '[%s]' "${RES%,}" > $D/.res
python3 - "$P" "$NAME" "$D" <<'PY'
import json,sys,os
P,NAME,D=sys.argv[1:4]
rd=lambda f: open(os.path.join(D,f)).read().strip()
hist=[]
mp=os.path.join(D,"meta.json")
if os.path.exists(mp):
    try:
        old=json.load(open(mp)); hist=old.get("detection_history",[])
        if old.get("checks_run"): hist.append({"checks_run":old["checks_run"],"note":old.get("note","earlier run (before the checks were strengthened)")})
    except Exception: pass
meta={"detection_history":hist,"property":P,"name":NAME,"demo_on_clean_tree":rd(".clean"),"existing_suite_with_patch":rd(".suite"),"demo_with_patch":rd(".seeded"),
 "checks_run":json.loads(rd(".res")),"what_it_needs":open(os.path.join(D,"NOTES.md")).read() if os.path.exists(os.path.join(D,"NOTES.md")) else ""}
json.dump(meta,open(os.path.join(D,"meta.json"),"w"),indent=1)
for f in (".clean",".suite",".seeded",".res"): os.remove(os.path.join(D,f))
print("meta written:",[ (c["check"],c["exit"],c["violations"]) for c in meta["checks_run"]])
PY
