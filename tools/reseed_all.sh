#!/bin/bash
# tools/reseed_all.sh — re-run every stored seeded change against the current /repo HEAD (sequentially: the patch is
# applied to /repo's working tree while its check runs).  Prints one line per seed.
cd /verif
for d in seeded/*/; do
  n=$(basename $d)
  p=$(python3 -c "import json;print(json.load(open('$d/meta.json'))['property'])")
  echo "== $n ($p)"
  SEEDNAME=$n tools/seedcheck.sh $p - 2>&1 | grep -E "PATCH DOES NOT|patch does not apply|^demo|^check" | cut -c1-220
done
